#!/usr/bin/env python3
"""tools/seedprompt.py WORKROOT PROP 'already tried ...' -> the task text given to a seed-writing sub-agent (it sees the property
text and its own worktree only)."""
import sys
root, p, first = sys.argv[1], sys.argv[2], sys.argv[3]
prop = open(f"{root}/{p}.prop.txt").read()
W = f"{root}/{p}"
print(f"""You are helping to test a verification effort for the Python CLI tool fsfe/reuse-tool. You get ONE semantic property of the tool and your own scratch git worktree of the repository. Your job is to make ONE realistic source change that silently breaks the property, and to demonstrate it.

WORKTREE: {W}   (a detached git worktree of the repository; source under {W}/src/reuse, tests under {W}/tests)
PYTHON: /venv/bin/python, always with the environment variable PYTHONPATH={W}/src so that YOUR copy of the package is imported (check with: PYTHONPATH={W}/src /venv/bin/python -c "import reuse; print(reuse.__file__)").
HARD RULES: work only inside {W}. Do not read, list or write anything under /verif, /repo or other /tmp/wt* directories. Do not use `git stash` (the stash is shared between worktrees), do not commit, do not create branches. There is no network.

THE PROPERTY
{prop}

WHAT TO PRODUCE
A change to files under {W}/src/reuse of the kind a developer could plausibly commit (a refactoring, an optimisation, a 'simplification', a well-meant fix with a side effect, an off-by-one, a changed default ...) such that:
 1. the package still imports and the command line still works;
 2. the repository's own test suite gives the same result with and without your change (run: cd {W} && PYTHONPATH={W}/src /venv/bin/python -m pytest -q -p no:cacheprovider tests 2>&1 | tail -15 ; a handful of tests fail on the UNCHANGED tree already because the sandbox runs as root - those do not count; run the suite once BEFORE changing anything to learn them);
 3. the property is violated only under specific circumstances (particular inputs, options, file contents, orders ...), not on every run - a change that breaks everything is useless;
 4. it is DIFFERENT in mechanism and location from these changes, which were already tried: {first}

DELIVERABLES in {W}/_seed/ (create the directory):
 - patch.diff : output of `git -C {W} diff -- src` with your change applied
 - demo.py    : a self-contained script that, run as `cd {W} && PYTHONPATH={W}/src /venv/bin/python _seed/demo.py`, exits 1 (printing what went wrong) when your change is applied and exits 0 on the unchanged source. It must observe the property through the tool's real behaviour (CLI via click.testing.CliRunner or subprocess, or public functions), create its scratch files in a tempfile.mkdtemp() directory and remove them. It must not depend on its own location other than via PYTHONPATH.
 - meta.json  : {{"property": "{p}", "summary": "<what you changed and why it breaks the property>", "needs": "<what specific circumstances are needed to see the violation>", "files_changed": [...], "suite_result": "<test-suite outcome with the change vs without>"}}
Verify yourself: demo.py exits 0 without the change (use `git -C {W} apply -R _seed/patch.diff` / `git -C {W} apply _seed/patch.diff` to toggle) and 1 with it. When you are done, leave the source REVERTED (git -C {W} checkout -- src) and keep _seed/. Finish with ONE line only: "done".""")
