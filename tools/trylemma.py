import sys, time, re
sys.path.insert(0, '/repo/src'); sys.path.insert(0, '/verif')
from pyvc.engine import Engine
from pyvc.backends import solve_all
from pyvc import api
import importlib
mods, pat = sys.argv[1].split(","), sys.argv[2]
for m in mods: importlib.import_module(m)
e = Engine()
import contracts.domain as d
d.declare(e); d.declare_io(e); d.declare_licensing(e); d.declare_cli(e); d.declare_paths(e); d.declare_project(e); d.declare_toml(e); d.declare_config(e); d.declare_effects(e); d.declare_annotate(e); d.declare_copyright(e); d.declare_header(e); d.declare_header_sections(e)
allv=[]
for lem in api.LEMMAS:
    if re.search(pat, lem.name):
        t=time.time()
        vcs = e.verify_lemma(lem, "X")
        print(lem.name, "gen", round(time.time()-t,2), "vcs", len(vcs))
        allv += vcs
solve_all(allv, tier=sys.argv[3] if len(sys.argv)>3 else "quick")
for vc in allv:
    r = vc.result
    print(r["verdict"], r["backend"], round(r["seconds"],2), vc.name, str(r["model"])[:200] if r["verdict"]=="sat" else "", [x for x in r["log"]][-3:] if r["verdict"]=="unknown" else "")
