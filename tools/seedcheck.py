#!/usr/bin/env python3
"""tools/seedcheck.py ID SRC_SEED_DIR [PROPS...]
Confirms a seeded change independently: on a scratch worktree of /repo HEAD the patch applies, the demonstration fails with
it and passes without it, and the baseline stable tests still pass with it.  Then stores it under /verif/seeded/ID and runs
the named checks against /repo with the patch applied (and reverts)."""
import json, os, shutil, subprocess, sys, tempfile
sid, src = sys.argv[1], sys.argv[2]
props = sys.argv[3:]
V = "/verif"
dst = f"{V}/seeded/{sid}"
os.makedirs(dst, exist_ok=True)
for f in ("patch.diff", "demo.py", "meta.json"):
    shutil.copy(os.path.join(src, f), os.path.join(dst, f))
wt = tempfile.mkdtemp(prefix="seedwt_", dir="/tmp")
os.rmdir(wt)
def sh(cmd, **kw):
    return subprocess.run(cmd, shell=True, capture_output=True, text=True, **kw)
out = {"id": sid}
try:
    sh(f"git -C /repo worktree add -q --detach {wt} HEAD")
    env = dict(os.environ, PYTHONPATH=f"{wt}/src", _SUPPRESS_DEP5_WARNING="1")
    r0 = sh(f"/venv/bin/python {dst}/demo.py", env=env, cwd=wt)
    out["demo_without_patch_exit"] = r0.returncode
    ap = sh(f"git -C {wt} apply {dst}/patch.diff")
    out["patch_applies"] = ap.returncode == 0
    if ap.returncode != 0:
        out["apply_error"] = ap.stderr[-400:]
    else:
        r1 = sh(f"/venv/bin/python {dst}/demo.py", env=env, cwd=wt)
        out["demo_with_patch_exit"] = r1.returncode
        out["demo_with_patch_tail"] = (r1.stdout + r1.stderr)[-300:]
        b = json.load(open("/root/.vp/BASELINE.json"))
        xml = f"{wt}/_junit.xml"
        cmd = b["cmd"].replace("cd /repo", f"cd {wt}").replace("<file>", xml)
        sh(cmd, env=env)
        import xml.etree.ElementTree as ET
        passed = set()
        for tc in ET.parse(xml).getroot().iter("testcase"):
            if not any(ch.tag in ("failure", "error", "skipped") for ch in tc):
                passed.add(f"{tc.get('classname')}::{tc.get('name')}")
        missing = sorted(set(b["stable_pass"]) - passed)
        out["stable_tests_broken_by_patch"] = missing[:10]
finally:
    sh(f"git -C /repo worktree remove --force {wt}")
ok = out.get("patch_applies") and out.get("demo_without_patch_exit") == 0 and out.get("demo_with_patch_exit") == 1 and not out.get("stable_tests_broken_by_patch")
out["confirmed"] = bool(ok)
results = {}
if ok and props:
    sh(f"git -C /repo apply {dst}/patch.diff")
    evbak = tempfile.mkdtemp(prefix="evbak_", dir=f"{V}/.scratch")
    shutil.copytree(f"{V}/evidence", f"{evbak}/evidence")      # evidence files must only ever come from the unchanged tree
    try:
        for p in props:
            r = sh(f"{V}/check {p}")
            lines = [l for l in r.stdout.splitlines() if l.startswith(("VIOLATION", "CHECKER")) or l.startswith(p + ":")]
            results[p] = {"exit": r.returncode, "lines": [l[:300] for l in lines[:8]]}
    finally:
        sh("git -C /repo checkout -- .")
        shutil.rmtree(f"{V}/evidence")
        shutil.copytree(f"{evbak}/evidence", f"{V}/evidence")
        shutil.rmtree(evbak)
out["checks"] = results
meta = json.load(open(f"{dst}/meta.json"))
meta["confirmation"] = {k: v for k, v in out.items() if k != "checks"}
meta["ran"] = f"tools/seedcheck.py {sid} (scratch worktree of /repo HEAD: demo without/with patch, baseline stable tests with patch)"
meta["detected_by"] = {p: r for p, r in results.items()}
json.dump(meta, open(f"{dst}/meta.json", "w"), indent=1)
print(json.dumps(out, indent=1))
