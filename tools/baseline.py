#!/usr/bin/env python3
"""Run the repository's suite and compare with /root/.vp/BASELINE.json stable_pass (uses the baseline's own parser)."""
import json, subprocess, sys, os, importlib.util, tempfile
b = json.load(open("/root/.vp/BASELINE.json"))
out = tempfile.mktemp(suffix=".xml", dir="/verif/.scratch" if os.path.isdir("/verif/.scratch") else None)
cmd = b["cmd"].replace("<file>", out)
r = subprocess.run(cmd, shell=True, capture_output=True, text=True)
import xml.etree.ElementTree as ET
passed = set()
for tc in ET.parse(out).getroot().iter("testcase"):
    ok = not any(ch.tag in ("failure", "error", "skipped") for ch in tc)
    name = f"{tc.get('classname')}::{tc.get('name')}"
    if ok:
        passed.add(name)
os.unlink(out)
stable = set(b["stable_pass"])
missing = sorted(stable - passed)
print("stable_pass:", len(stable), "passed now:", len(passed), "stable tests not passing:", len(missing))
for m in missing[:20]:
    print("  ", m)
sys.exit(1 if missing else 0)
