import sys, time
sys.path.insert(0, '/repo/src'); sys.path.insert(0, '/verif')
from pyvc.engine import Engine
from pyvc.backends import solve_all
import importlib
mod, fn, prop = sys.argv[1], sys.argv[2], sys.argv[3]
importlib.import_module(mod)
e = Engine()
t=time.time()
vcs = e.verify_function(fn, prop)
print("gen", round(time.time()-t,2), "vcs", len(vcs), "trivial", len(e.trivial))
solve_all(vcs, tier="quick")
for vc in vcs:
    r = vc.result
    print(vc.kind, r["verdict"], r["backend"], round(r["seconds"],2), vc.name, r["model"] if r["verdict"]=="sat" and vc.kind=="valid" else "", r["log"] if r["verdict"]=="unknown" else "")
print(e.functions_verified)
