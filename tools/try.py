import sys, time
import os; sys.path.insert(0, os.environ.get('TRY_SRC', '/repo/src')); sys.path.insert(0, '/verif')
from pyvc.engine import Engine
from pyvc.backends import solve_all
import importlib
mods, fns, prop = sys.argv[1].split(","), sys.argv[2].split(","), sys.argv[3]
for m in mods: importlib.import_module(m)
e = Engine()
import contracts.domain as d
d.declare(e)
d.declare_io(e)
d.declare_licensing(e)
d.declare_cli(e)
d.declare_paths(e)
d.declare_project(e); d.declare_toml(e); d.declare_config(e); d.declare_effects(e); d.declare_annotate(e); d.declare_copyright(e); d.declare_header(e); d.declare_header_sections(e)
allv=[]
for fn in fns:
    t=time.time()
    vcs = e.verify_function(fn, prop)
    print(fn, "gen", round(time.time()-t,2), "vcs", len(vcs), "trivial", len(e.trivial))
    allv+=vcs
solve_all(allv, tier="quick")
for vc in allv:
    r = vc.result
    if r["verdict"]!="unsat" and not (vc.kind=="cover" and r["verdict"]=="sat"):
        print(vc.kind, r["verdict"], r["backend"], round(r["seconds"],2), vc.name, vc.note, str(r["model"]) if r["verdict"]=="sat" and vc.kind=="valid" else "", r["log"] if r["verdict"]=="unknown" else "")
print("total", len(allv), "unsat", sum(1 for v in allv if v.result["verdict"]=="unsat"))
