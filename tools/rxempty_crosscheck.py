import sys, random, time
sys.path.insert(0,'/verif')
import z3
from pyvc import rxempty, rx
import re
random.seed(1)
pats = [r"LICEN[CS]E([-.].*)?", r"COPYING([-.].*)?", r".*\.license", r".*\.spdx(\.(rdf|json|xml|ya?ml))?", r"REUSE\.toml", r"\.git", r"a*b+", r"(ab|c)*", r"[a-c]+x?", r".*a.*", r"[^a]*", r"\s+x", r"\d{2,3}", r"x{0,2}y"]
bad=0; n=0
t0=time.time()
for trial in range(300):
    k = random.randint(1,4)
    lits=[]
    for _ in range(k):
        p = random.choice(pats)
        lits.append((rx.Lang(p, re.DOTALL if random.random()<0.5 else 0).fullmatch_lang(), random.random()<0.5))
    ok, w = rxempty.nonempty(lits)
    x = z3.String("x"); s = z3.Solver(); s.set("timeout", 3000)
    for R,pos in lits: s.add(z3.InRe(x,R) if pos else z3.Not(z3.InRe(x,R)))
    r = s.check()
    if r == z3.unknown or ok is None: continue
    n+=1
    if (r == z3.sat) != ok:
        bad+=1; print("MISMATCH", [(str(R)[:40],p) for R,p in lits], ok, w, r)
    if ok:
        sv=z3.StringVal(w)
        if not all(z3.is_true(z3.simplify(z3.InRe(sv,R)))==pos for R,pos in lits):
            bad+=1; print("BAD WITNESS", repr(w))
print("compared", n, "mismatches", bad, round(time.time()-t0,1))
