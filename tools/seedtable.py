#!/usr/bin/env python3
"""Markdown table of the seeded changes kept under /verif/seeded (for DESIGN.md 9.5)."""
import json, os, re
V = os.path.dirname(os.path.dirname(os.path.abspath(__file__)))
rows = []
for sid in sorted(os.listdir(f"{V}/seeded")):
    mp = f"{V}/seeded/{sid}/meta.json"
    if not os.path.exists(mp):
        continue
    m = json.load(open(mp))
    if not m.get("confirmation", {}).get("confirmed"):
        continue
    summary = re.sub(r"\s+", " ", m.get("summary", ""))[:230].rstrip()
    det = []
    for prop, r in m.get("detected_by", {}).items():
        lines = [l for l in r["lines"] if l.startswith("VIOLATION")]
        if r["exit"] == 1 and lines:
            kinds = set()
            for l in lines:
                if "_bounded_" in l:
                    kinds.add("bounded `" + l.split("_bounded_")[1].split(".")[0] + "`")
                else:
                    mm = re.search(r"replays/\w+/\w+?_(reuse\.[\w.]+?)_(post|inv|raises|frame|pre)", l)
                    kinds.add("contract of `" + (mm.group(1).split(".")[-1] if mm else "?") + "`")
            det.append(f"**{prop}**: " + ", ".join(sorted(kinds)))
        elif r["exit"] == 3:
            det.append(f"{prop}: checker error (not a detection)")
        else:
            det.append(f"{prop}: not reported")
    rows.append(f"| `{sid}` | {summary}… | {'; '.join(det)} |")
print("| seeded change | what it does | reported by |\n|---|---|---|")
print("\n".join(rows))
