#!/usr/bin/env python3
"""Rebuilds section 9 of DESIGN.md from tools/design9.template.md and the seeded-change table."""
import os, subprocess
V = os.path.dirname(os.path.dirname(os.path.abspath(__file__)))
tpl = open(f"{V}/tools/design9.template.md").read()
table = subprocess.run(["python3", f"{V}/tools/seedtable.py"], capture_output=True, text=True).stdout
tpl = tpl.replace("@@NSEEDS@@", str(table.count("\n| `"))).replace("@@SEEDTABLE@@", table).replace("@@FIXROWS@@\n", "")
d = open(f"{V}/DESIGN.md").read()
marker = "\n## 9. As built"
if marker in d:
    d = d[:d.index(marker)]
open(f"{V}/DESIGN.md", "w").write(d.rstrip("\n") + "\n" + tpl)
print("DESIGN.md section 9 rebuilt:", len(tpl.splitlines()), "lines")
