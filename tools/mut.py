#!/usr/bin/env python3
"""tools/mut.py FILE 'old' 'new' -- PROP...   apply a one-off textual mutation to /repo, run checks, revert."""
import subprocess, sys
f, old, new = sys.argv[1:4]
props = sys.argv[5:]
p = "/repo/" + f
s = open(p).read()
assert s.count(old) >= 1, "pattern not found"
open(p, "w").write(s.replace(old, new, 1))
try:
    for pr in props:
        r = subprocess.run(["/verif/check", pr], capture_output=True, text=True)
        lines = [l for l in r.stdout.splitlines() if l.startswith(("VIOLATION", "UNDECIDED", "CHECKER", "KNOWN")) or l.startswith(pr + ":")]
        print(pr, "exit", r.returncode)
        for l in lines[:6]:
            print("   ", l[:230])
finally:
    subprocess.run(["git", "-C", "/repo", "checkout", "--", "."])
