#!/usr/bin/env python3
"""Regenerates /verif/MANIFEST.json from the table below (keeps it schema-valid at all times)."""
import json, os
V = os.path.dirname(os.path.dirname(os.path.abspath(__file__)))
CLAIMED = {
    # id: (category, technique, level text, level note, design ref)
    "C12": ("proof", "contract-based deductive verification: home-made VC generator (ast -> z3/cvc5) on the real function bodies, sidecar contracts",
            "filter_ignore_block's real body proved equal to the recursive specification of the statement for all texts (per-path string VCs, z3 then cvc5); spec lemmas; plus a bounded token enumeration through the real extract_reuse_info (labelled bounded, not counted)",
            "trusts pyvc's encoding of the Python subset (str.index/find/slicing/truthiness), the solvers' string theory, code points <= U+2FFFF", "4.12"),
}
CLAIMED["C01"] = ("proof", CLAIMED["C12"][1],
    "contracts on the real bodies of the report getters, ProjectReport.generate (4 loops with invariants), FileReport.generate (3 nested loops), is_compliant and the lint callback; lemma `verdict`: compliant <=> clauses (a)-(d) of the statement over the per-file results; lint's exit status proved 0 exactly then, on every output branch (626 obligations, unbounded)",
    "assumed contracts: _generate_file_reports (covered-file enumeration: C03/C14), Project.reuse_info_of (C04), ClickObj.project (C16), formatters' frames (C13), license_expression/hashlib as uninterpreted; trusts pyvc's encoding and z3", "4.1")
CLAIMED["C03"] = ("proof", CLAIMED["C12"][1] + "; regular-language membership via z3 (lazy regex abstraction)",
    "is_path_ignored's real body proved equivalent to the statement's decision formula for all names (file-name language equality, directory-name sandwich, subset/submodule/Meson/VCS clauses); relativised to the committed known finding; plus a bounded real-tree enumeration through iter_files (labelled bounded)",
    "assumes pathlib/os.stat/os.walk observers and Git's answer sets; iter_files' walk loop is exercised by the bounded tree enumeration only; names free of newlines", "4.3")
CLAIMED["C05"] = ("other", "language inclusion of the real compiled matcher against the statement's glob language, decided per glob for all paths by a derivative-based emptiness check (pyvc/rxempty.py; witnesses re-validated by z3 and by the real matcher) with z3's regex solver as fallback, globs enumerated to a bound",
    "for every glob over {a . / * \\} up to length 4 (quick) / 6 (thorough) the real _paths_regex is sandwiched between the narrow and wide reading for ALL paths (unbounded in the path, bounded in the glob)",
    "bounded in the glob; trusts pyvc.rx, pyvc.rxempty (cross-checked against z3 by tools/rxempty_crosscheck.py) and z3's regex theory; code points <= U+2FFFF", "4.5")
CLAIMED["C17"] = ("other", "language equality of the two real compiled matchers (python-debian vs converted REUSE.toml glob), decided per pattern for all paths by a derivative-based emptiness check (pyvc/rxempty.py) with z3 as fallback, patterns enumerated to a bound; end-to-end conversion runs",
    "for every legal dep5 pattern over {a / * ? \\} up to length 4 (quick) / 5 (thorough) the dep5 matcher and the converted REUSE.toml matcher are compared as languages for ALL paths; per-file copyright and licence before and after the real convert-dep5 for every ordered selection of up to 3/4 of 7 overlapping paragraphs; two known findings ('?' and '*/') are listed and every other difference is a violation",
    "bounded in the pattern and in the paragraph selections; the conversion's code is not under contract (bounded end-to-end runs only)", "4.17")
CLAIMED["C06"] = ("proof", CLAIMED["C12"][1],
    "set-algebra contracts on the real bodies ('+' helpers, used/unused getters, classification loops of FileReport.generate, bad/deprecated loop of ProjectReport.generate, _identifier_of_license), lemmas for the cross-consistency of missing/unused/bad taken from the statement, and a finite exhaustive obligation over the bundled SPDX lists; one listed known finding (LicenseRef- classed bad)",
    "assumes the license_map invariant established by _find_licenses (loop body not under contract), Licensing.license_keys, pathlib suffix/stem/name", "4.6")
CLAIMED["C04"] = ("proof", CLAIMED["C12"][1],
    "contracts on the real bodies of _determine_license_path, Project.reuse_info_of (against a specification written from the statement, pointwise for an arbitrary value/source/source-type triple; override: exactly the override, aggregate and closest tables), ReuseTOML.find_annotations_item (last match), ReuseTOML.reuse_info_of and NestedReuseTOML.reuse_info_of (exception freedom, nearest-provider clean-up with step lemmas)",
    "assumes reuse_info_of_file (C02) and pathlib relations; the REUSE.toml finder's ordering and the walk loop are exercised by the bounded nested-chain trees only; ReuseDep5.reuse_info_of is not under contract", "4.4")
CLAIMED["C13"] = ("proof", CLAIMED["C12"][1] + "; bounded enumeration of synthetic reports through the real formatters",
    "contracts on the real bodies behind the exit statuses (is_compliant, the lint callback on all four output branches, ProjectSubsetReport.generate / is_compliant / files_without_*, the lint-file callback: exit 1 iff a line is printed); the agreement of the rendered texts and the JSON counters is exercised by a bounded enumeration (labelled bounded)",
    "formatter loops are not under contract (bounded check only); json.dumps / click.echo assumed", "4.13")
CLAIMED["C16"] = ("proof", CLAIMED["C12"][1] + "; exhaustive finite enumeration of the TOML key x type grid; bounded CLI runs",
    "exception-flow contracts (raises clauses) on the real bodies of ReuseTOML.from_toml / from_file, ReuseDep5.from_file, ClickObj.project (only click.UsageError escapes) and the worker callable (nothing escapes; report xor error); the statement's grid 'each key x each TOML type' enumerated completely through the real from_toml; every subcommand run on malformed projects (bounded)",
    "raise sets of tomlkit / python-debian / file reads are assumed; from_dict is decided by the exhaustive grid, not by a contract on its body; permission errors not exercised (root)", "4.16")
CLAIMED["C19"] = ("proof", CLAIMED["C12"][1] + " with ghost file-system effect sets; bounded runs of the real command with a stubbed network",
    "effect contracts on the real bodies of put_license_in_file (writes exactly its destination, only if absent; nothing written on failure; no network for LicenseRef-) and of the download callback (exit 0 only if every requested licence, ID+ as ID, was written; nothing removed); bounded stubbed-network runs cover --all, existing targets, LicenseRef sources and mid-batch failures",
    "assumes urllib/shutil/pathlib effects as modelled, _path_to_license_file's destination (exercised by the bounded runs), single process", "4.19")
CLAIMED["C11"] = ("proof", CLAIMED["C12"][1] + " with ghost file-system effect sets",
    "effect contracts on the real bodies of add_header_to_file (a failed header writes nothing; only FILE or FILE.license may be written; relativised to the listed known finding about --fallback-dot-license) and of the annotate callback (every file is processed whatever happened to the others, exit status 0 or 1, usage errors before any effect)",
    "header construction functions are assumed to fail only with the two anticipated exceptions and to have no effects; the exit status is proved to be min(sum of per-file results, 1) only as 'in {0,1}'", "4.11")
CLAIMED["C15"] = ("proof", CLAIMED["C12"][1] + " with ghost file-system effect sets; exhaustive syntactic scan for writing APIs",
    "closed list of writing operations by an exhaustive scan on every run; effect contracts on the real bodies of the lint and lint-file callbacks (no effects), add_header_to_file, all_paths (only named files or covered files below named directories), the annotate callback, the convert-dep5 callback (REUSE.toml written, dep5 removed only afterwards, refusal without effects) and put_license_in_file / download",
    "effects of pathlib/shutil/open as modelled; VCS subprocesses, click.File and os.environ are listed assumptions; named symlink arguments follow the link", "4.15")
CLAIMED["C20"] = ("proof", CLAIMED["C12"][1] + "; regular-language membership via z3 (lazy regex abstraction); bounded enumerations through the real builder and reader",
    "contracts on the real bodies of make_copyright_line (raises exactly on newline / unknown prefix; verbatim iff the statement is a notice in the sense of the statement's tag list - compared with the search languages of the three real compiled patterns for all strings; otherwise prefix [year] statement for each of the ten prefixes), _parse_copyright_year and get_year; lemma: every built line is a notice; the captured prefix/year/holder groups and merge_copyright_lines are exercised by bounded enumerations (labelled bounded, not counted as proved)",
    "capture groups of the patterns and the merge fold are bounded only; Python re = the calculus of pyvc.rx; code points <= U+2FFFF", "4.20")
CLAIMED["C18"] = ("proof", CLAIMED["C12"][1] + "; bounded runs of the real `reuse spdx` parsed back as tag-value; truth tables",
    "contracts on the real bodies of FileReport.generate (name = './' + path relative to the root, SPDXID = 'SPDXRef-' + MD5(name + checksum), checksum = SHA-1 of the file, licence identifiers = keys of the file's expressions, copyright present iff a notice exists, LicenseConcluded NOASSERTION / NONE cases) and format_creator; identifier-uniqueness lemma; the emitted document (sections vs covered files, DESCRIBES, SHA-1, per-file data vs lint --json, LicenseRef texts, line shape), the chunked SHA-1 loop and LicenseConcluded equivalence (all truth assignments) are bounded checks (labelled bounded)",
    "bill_of_materials' write loop and license_expression.simplify are bounded only; MD5/SHA-1 uninterpreted (collision-freedom assumed for uniqueness); no SPDX validator installed: 'parses as tag-value' is line shape", "4.18")
CLAIMED["C14"] = ("proof", CLAIMED["C12"][1] + "; frame obligations (no mutation of heap objects or of collections held by frozen values reachable from the inputs); bounded child-process runs over the hidden parameters",
    "determinism as a functional property: Project.reuse_info_of, NestedReuseTOML.reuse_info_of and the worker callable are proved against contracts with frames (FileReport.generate / ProjectReport.generate, stated over sets and maps, under C01) (the answer for a file cannot depend on files processed earlier or elsewhere); exhaustive scan for nondeterminism sources; the real lint --json / spdx outputs are compared across hash seeds, worker counts, listing orders, working directories and root spellings (bounded, labelled); one listed known finding (paths of non_compliant lists echo the root spelling)",
    "OS scheduling of worker processes is not a value a function contract quantifies over: the frame of the per-file functions is the deductive substitute; Pool.map assumed to return one result per input; os.walk / glob order only by the bounded runs", "4.14")
T = CLAIMED["C12"][1]
CLAIMED["C07"] = ("proof", T + "; template and comment style universally abstracted; bounded runs of the real command read back with the tool's reader",
    "contract on the real body of _create_new_header with ANY template and ANY comment style: a header is returned only if the reader finds exactly the requested copyright notices and licence expressions in it (else MissingReuseInfoError, nothing written: C11); create_header passes it the union of old and requested information; make_copyright_line builds the notices (C20); reader/writer agreement for every file type (both tables, enumerated completely), every --style, prefixes, years, sidecars, templates and awkward holders is a bounded round trip through the real command (labelled bounded)",
    "the reader is a ghost function of the text in the proof (its patterns: C02/C20 bounded); contributors are outside the code's read-back guard (covered by the bounded runs); jinja2 and the style classes themselves are not under contract", "4.7")
CLAIMED["C08"] = ("proof", T + "; bounded byte comparison of the real command",
    "string contracts on the real bodies of _find_first_spdx_comment (before + header + after partitions the text, for any comment finder returning an initial segment that ends at a line end), place_header (kept prefix up to trailing white space, suffix byte for byte, only adjacent blank lines change) and detect_line_endings; shebang extraction, BOM, CR/CRLF write-back, final newline and --no-replace are bounded byte comparisons over ~20 body shapes x styles x line endings (labelled bounded)",
    "comment_at_first_character assumed to return an initial segment ending at a line end ('\\n' the only line boundary); find_and_replace_header's composition and _extract_shebang are bounded only; open()'s newline translation assumed", "4.8")
CLAIMED["C09"] = ("proof", T + "; ReuseInfo.union / copy inlined from the real class; bounded command sequences against a running model",
    "contract on the real body of create_header: the returned header is the writer's function of (old U requested notices [through the merge function with --merge-copyrights], old U requested expressions, old U requested contributors) and the reader finds exactly those notices and expressions in it; histories of the real command (length 3 quick / 4 thorough over 10 steps incl. --merge-copyrights, --no-replace, --skip-existing, templates) are checked step by step against a running model (labelled bounded), as is merge_copyright_lines",
    "the located old header and the reader are ghost functions (C08/C10/C02); merge_copyright_lines is bounded only; information outside the first header block is not re-read by annotate", "4.9")
CLAIMED["C10"] = ("proof", T + "; bounded repeated runs of the real command",
    "contracts on the real bodies of _create_new_header (the header text is a function of the three SETS, template, style and flags: no iteration order observable), create_header and place_header (no blank line added when a header existed); that every style finds the block its own writer produced and the byte-level fixpoint are bounded: every --style x single/multi x 3 requests x bodies, both file-type tables, option combinations, run 2 / 3 times (labelled bounded)",
    "comment_at_first_character / contains_reuse_info on the tool's own output are bounded only; --no-replace and a pre-commented template of a foreign style are excluded (stacking is their meaning)", "4.10")
CLAIMED["C02"] = ("other", "regular-language equality of the real compiled _END_PATTERN against the star of all style terminators (all strings; derivative-based emptiness with z3 fallback); bounded enumeration of style x form x tag line through the real reader; bounded window / snippet / error files",
    "proved for all strings: the terminator language of the real _END_PATTERN equals 'any sequence of the multi-line terminators of all comment styles and the three special endings' (read from the real style table each run); bounded: every style x up to 10 line shapes x licence / copyright / contributor lines read back exactly; tags around the 4096-byte boundary with LF / CRLF / non-ASCII fillers, snippet marker, unparseable expressions; one listed known finding (copyright inside an ASCII-art frame)",
    "capture groups of backtracking regular expressions are not decided by the installed solvers: value exactness is bounded, not proved; find_spdx_tag / reuse_info_of_file bodies are not under contract", "4.2")
NOT_YET = "check not built yet in this session (work in progress; see DESIGN.md section 4 for the planned contracts)"
props = [json.loads(l) for l in open(os.path.join(V, "properties.jsonl"))]
checks, na = [], []
for p in props:
    pid = p["id"]
    if pid in CLAIMED:
        cat, tech, text, note, ref = CLAIMED[pid]
        checks.append(dict(property_id=pid, quick_cmd=f"./check {pid} --tier quick", thorough_cmd=f"./check {pid} --tier thorough",
                           evidence_file=f"evidence/{pid}.json", replay_cmd_template=f"./check {pid} --replay {{path}}",
                           engine="pyvc", level_claimed=dict(category=cat, text=text, design_ref=f"DESIGN.md {ref}"),
                           level_note=note, technique=tech))
    else:
        na.append(dict(property_id=pid, reason=NA.get(pid, NOT_YET) if (NA := globals().get("NA", {})) is not None else NOT_YET))
m = dict(version=1, setup_cmd="./setup.sh",
         hooks=dict(guard="REUSE_TOOL_VERIF", enable="no source hooks: contracts are sidecars under /verif/contracts, checks import /repo/src directly",
                    baseline_off_cmd="cd /repo && /venv/bin/python -m pytest -ra -q -p no:cacheprovider --timeout=900 --continue-on-collection-errors",
                    # no hook or instrumentation commit exists; the commits made in /repo are the unguarded "fix:" repairs of
                    # genuine defects (they change existing lines, as repairs do) and are listed separately
                    source_commits=[], add_only=True,
                    fix_commits=json.load(open(os.path.join(V, "tools", "source_commits.json")))),
         engines=[dict(name="pyvc", path="pyvc/", serves_properties=sorted(CLAIMED),
                       kind_free_text="symbolic executor / VC generator for a Python subset over the real ASTs; sidecar contracts; z3 + cvc5 back ends; native replay")],
         checks=checks, not_applicable=na,
         notes="Every check re-reads /repo/src on each run. Exit 0 held / 1 violation (an obligation that is no longer discharged is reported "
               "as a violation with no-failing-input-found) / 3 checker error. No source hooks: hooks.source_commits is empty; "
               "hooks.fix_commits lists the unguarded 'fix:' commits in /repo (genuine defects repaired, see known_findings.json and DESIGN.md 9.4).")
json.dump(m, open(os.path.join(V, "MANIFEST.json"), "w"), indent=1)
import jsonschema
jsonschema.validate(m, json.load(open("/root/.vp/MANIFEST.schema.json")))
print("MANIFEST ok:", len(checks), "claimed,", len(na), "not_applicable")
