import sys, time, re
sys.path.insert(0, '/repo/src'); sys.path.insert(0, '/verif')
from pyvc.engine import Engine
import importlib
mods, fn, prop, pat = sys.argv[1].split(","), sys.argv[2], sys.argv[3], sys.argv[4]
for m in mods: importlib.import_module(m)
e = Engine()
import contracts.domain as d
d.declare(e); d.declare_io(e); d.declare_licensing(e)
vcs = e.verify_function(fn, prop)
for vc in vcs:
    if re.search(pat, vc.name):
        lv = vc.levels()
        for k, t in enumerate(lv):
            open(f"/tmp/vc_{k}.smt2", "w").write(t)
        print(vc.name, [len(t) for t in lv])
        print("GOAL:", vc.goal)
        break
