"""Type declarations for the reuse domain, generated from the REAL classes at run time
(dataclasses.fields / attrs.fields / annotated assignments in __init__), plus models of externals."""
from __future__ import annotations

import ast
import dataclasses
import inspect
import sys
import z3

from pyvc.state import Val, py, Unsupported, fresh_name
from pyvc.types import STR, INT, BOOL, NONE, TSet, TSeq, TOpt, TDict, TAbs

OVERRIDES = {
    # class -> field -> type text (only where the source annotation is not precise enough for a sort)
    "Project": {"license_map": "dict[str, LicInfo]", "vcs_strategy": "VCS", "global_licensing": "Optional[GlobalLicensing]"},
    "ProjectReport": {"path": "Path"},
    "ProjectSubsetReport": {"path": "Path"},
    "_MultiprocessingResult": {"path": "Path", "error": "Optional[PyExc]"},
    "FileReport": {"path": "Path"},
}


def fields_from_init(cls):
    """self.<name>: <ann> = ... and self.<name> = <param> in the real __init__ (current source)."""
    src = inspect.getsource(cls)
    import textwrap
    tree = ast.parse(textwrap.dedent(src))
    cdef = tree.body[0]
    out = {}
    for n in cdef.body:
        if isinstance(n, ast.FunctionDef) and n.name == "__init__":
            anns = {a.arg: a.annotation for a in n.args.args}
            for st in ast.walk(n):
                if isinstance(st, ast.AnnAssign) and isinstance(st.target, ast.Attribute) and isinstance(st.target.value, ast.Name) \
                        and st.target.value.id == "self":
                    out[st.target.attr] = ast.unparse(st.annotation)
                elif isinstance(st, ast.Assign) and len(st.targets) == 1 and isinstance(st.targets[0], ast.Attribute) \
                        and isinstance(st.targets[0].value, ast.Name) and st.targets[0].value.id == "self":
                    name = st.targets[0].attr
                    if name in out:
                        continue
                    v = st.value
                    if isinstance(v, ast.Name) and anns.get(v.id) is not None:
                        out[name] = ast.unparse(anns[v.id])
                    elif isinstance(v, ast.Call) and isinstance(v.func, ast.Name) and v.func.id == "Path":
                        out[name] = "Path"
    return out


def tname(t):
    """Printable, module-free name of an annotation object or string."""
    import re
    if isinstance(t, str):
        return t
    if isinstance(t, type) and not hasattr(t, "__args__"):
        return t.__name__
    txt = str(t)
    txt = re.sub(r"ForwardRef\('([^']+)'\)", r"\1", txt)
    txt = txt.replace("typing.Union[str, os.PathLike]", "Path")
    txt = re.sub(r"\b(?:[A-Za-z_]\w*\.)+([A-Za-z_]\w*)", r"\1", txt)
    return txt


def declare(e):
    import reuse
    import reuse.report as rep
    import reuse.project as proj
    import reuse.global_licensing as gl
    reg = e.reg
    for name in ("Path", "Expr", "LicInfo", "VCS", "GlobalLicensing", "PyExc", "Template", "Bytes"):
        reg.declare("abs", name)
    reg.aliases.update({"StrPath": TAbs("Path"), "PurePath": TAbs("Path"), "Expression": TAbs("Expr"),
                        "Exception": TAbs("PyExc")})
    reg.declare("enum", "SourceType", pyclass=reuse.SourceType, members=[m.name for m in reuse.SourceType])
    reg.declare("enum", "PrecedenceType", pyclass=gl.PrecedenceType, members=[m.name for m in gl.PrecedenceType])
    # frozen dataclass -> value record
    ri = {f.name: tname(f.type) for f in dataclasses.fields(reuse.ReuseInfo)}
    reg.declare("data", "ReuseInfo", fields=ri, pyclass=reuse.ReuseInfo)
    e.data_defaults["ReuseInfo"] = {
        "spdx_expressions": lambda eng: eng.empty_set(TAbs("Expr")),
        "copyright_lines": lambda eng: eng.empty_set(STR),
        "contributor_lines": lambda eng: eng.empty_set(STR),
        "path": lambda eng: Val(NONE, None), "source_path": lambda eng: Val(NONE, None),
        "source_type": lambda eng: Val(NONE, None),
    }
    # plain mutable classes -> references with heap fields
    for cls in (rep.FileReport, rep.ProjectReport, rep.ProjectSubsetReport):
        f = fields_from_init(cls)
        f.update(OVERRIDES.get(cls.__name__, {}))
        reg.declare("ref", cls.__name__, fields=f, pyclass=cls)
    # NamedTuple
    mr = {k: tname(v) for k, v in rep._MultiprocessingResult.__annotations__.items()}
    mr.update(OVERRIDES["_MultiprocessingResult"])
    mr["report"] = "Optional[FileReport]"
    reg.declare("data", "_MultiprocessingResult", fields=mr, pyclass=rep._MultiprocessingResult)
    # attrs class Project
    import attrs
    pf = {}
    for a in attrs.fields(proj.Project):
        pf[a.name] = tname(a.type)
    pf.update(OVERRIDES["Project"])
    reg.declare("ref", "Project", fields=pf, pyclass=proj.Project)

    # ---- truthiness of ReuseInfo: __bool__ = any(self.__dict__.values()) -> unrolled over the real field list
    def ri_truth(eng, v):
        parts = []
        for f in reg.fields["ReuseInfo"]:
            parts.append(eng.truth(eng.read_field(None, v, f)))
        return z3.Or(*parts)
    e.truth_hooks["ReuseInfo"] = ri_truth

    # ---- LicInfo: the JSON object of one licence; only isDeprecatedLicenseId is observed
    def licinfo_subscript(eng, s, base, idx, node):
        key = idx.t if idx.is_py else idx.t.as_string()
        if key != "isDeprecatedLicenseId":
            raise Unsupported(f"LicInfo[{key!r}]")
        f = eng.uf("is_deprecated", [reg.sort(TAbs("LicInfo"))], z3.BoolSort())
        return [(s, Val(BOOL, f(base.t)))]
    e.subscript_models["LicInfo"] = licinfo_subscript

    # ---- Path(x): identity on paths
    import pathlib

    def m_path(eng, s, args, kw, node):
        v = args[0]
        if v.ty == TAbs("Path"):
            return [(s, v)]
        if v.ty.kind == "str":
            f = eng.uf("ghost_path_of_str", [z3.StringSort()], reg.sort(TAbs("Path")))
            return [(s, Val(TAbs("Path"), f(v.t)))]
        if v.ty.kind == "opt":
            bad, ok = eng.branch(s, eng.is_none(v), "Path(None)")
            if bad is not None:
                eng.raise_(bad, TypeError, where=node)
            if ok is None:
                return []
            return m_path(eng, ok, [eng.unwrap(v)], kw, node)
        raise Unsupported(f"Path({v.ty})")
    e.func_models[pathlib.Path] = m_path
    e.func_models[pathlib.PurePath] = m_path

    def str_to_path(eng, v, ty):
        t = z3.StringVal(v.t) if v.is_py else v.t
        f = eng.uf("ghost_path_of_str", [z3.StringSort()], reg.sort(TAbs("Path")))
        return Val(TAbs("Path"), f(t))
    e.coerce_hooks[("str", "Path")] = str_to_path
    for cls in (rep.FileReport, rep.ProjectReport, rep.ProjectSubsetReport):
        e.inline_ok.add(f"{cls.__module__}.{cls.__qualname__}.__init__")

    # exceptions held as values (the error slot of a worker result)
    def exc_isinstance(eng, s, v, classes):
        parts = []
        for c in classes:
            f = eng.uf("exc_is_" + c.__name__, [reg.sort(TAbs("PyExc"))], z3.BoolSort())
            parts.append(f(v.t))
        return Val(BOOL, z3.Or(*parts))
    e.isinstance_hooks["PyExc"] = exc_isinstance


def declare_io(e):
    """Ghost file system observers, hashing, licensing library: assumed models of externals (trusted base)."""
    import hashlib
    import random
    import reuse
    from license_expression import Licensing
    reg = e.reg
    P = reg.sort(TAbs("Path"))
    reg.declare("ref", "Hasher", fields={"data": "str"})

    def path_obs(name, rng=BOOL):
        def model(eng, s, recv, mname, args, kw, node):
            f = eng.uf("fs_" + name, [P], reg.sort(rng))
            return [(s, Val(rng, f(recv.t)))]
        return model
    for nm in ("is_file", "is_dir", "exists", "is_symlink"):
        e.method_models[("Path", nm)] = path_obs(nm)

    def m_md5(eng, s, args, kw, node):
        ref = eng.fresh(reg.ty_of_class("Hasher"), "md5")
        s = s.copy()
        news = dict(s.ghost.get("__new__", {}))
        news["Hasher"] = news.get("Hasher", []) + [ref.t]
        s.ghost["__new__"] = news
        eng.write_field(s, ref, "data", Val(STR, z3.StringVal("")))
        return [(s, ref)]
    e.func_models[hashlib.md5] = m_md5

    def m_update(eng, s, recv, mname, args, kw, node):
        cur = eng.read_field(s, recv, "data")
        eng.write_field(s, recv, "data", Val(STR, z3.Concat(cur.t, args[0].t)))
        return [(s, Val(NONE, None))]
    e.method_models[("Hasher", "update")] = m_update

    def m_hexdigest(eng, s, recv, mname, args, kw, node):
        f = eng.uf("ghost_md5hex", [z3.StringSort()], z3.StringSort())
        return [(s, Val(STR, f(eng.read_field(s, recv, "data").t)))]
    e.method_models[("Hasher", "hexdigest")] = m_hexdigest

    def m_getrandbits(eng, s, args, kw, node):
        return [(s, eng.fresh(INT, "random_bits"))]
    e.func_models[random.getrandbits] = m_getrandbits

    # license_expression: keys(expr) is an uninterpreted finite set of identifiers; license_keys enumerates it
    def m_license_keys(eng, s, args, kw, node):
        expr = args[1]
        f = eng.uf("ghost_license_keys", [reg.sort(TAbs("Expr"))], reg.sort(TSet(STR)))
        return [(s, eng.enumeration_of(Val(TSet(STR), f(expr.t))))]
    e.func_models[Licensing.license_keys] = m_license_keys


def declare_licensing(e):
    from license_expression import Licensing, ExpressionError
    reg = e.reg
    E = reg.sort(TAbs("Expr"))

    def m_parse(eng, s, args, kw, node):
        """Licensing.parse(text): Expr = parse_expr(text) when parseable(text), else raises ExpressionError
        (ParseError is handled alike at every call site).  Assumption: ' AND '.join('(e)' ...) over rendered
        expressions is parseable."""
        txt = args[1]
        if txt.is_py:
            txt = eng.lift(txt.t)
        if txt.ty.kind == "opt":
            raise Unsupported("Licensing.parse of Optional")
        ok = eng.uf("parseable", [z3.StringSort()], z3.BoolSort())(txt.t)
        if z3.is_app(txt.t) and txt.t.decl().name() == "str_join":
            ok = z3.BoolVal(True)
        t, f = eng.branch(s, ok, "parseable")
        if f is not None:
            eng.raise_(f, ExpressionError, where=node)
        if t is None:
            return []
        pe = eng.uf("parse_expr", [z3.StringSort()], E)
        return [(t, Val(TAbs("Expr"), pe(txt.t)))]
    e.func_models[Licensing.parse] = m_parse

    def m_expr_method(eng, s, recv, name, args, kw, node):
        if name == "simplify":
            return [(s, Val(TAbs("Expr"), eng.uf("expr_simplify", [E], E)(recv.t)))]
        if name == "render":
            return [(s, Val(STR, eng.uf("expr_render", [E], z3.StringSort())(recv.t)))]
        raise Unsupported(f"Expr.{name}")
    e.method_models[("Expr", "*")] = m_expr_method


def declare_cli(e):
    """click / sys models: output goes to a ghost write log, sys.exit raises SystemExit carrying its code."""
    import sys as _sys
    import click
    import reuse.cli.common as common
    reg = e.reg
    reg.declare("ref", "ClickObj", fields={"root": "Optional[Path]", "include_submodules": "bool",
                                           "include_meson_subprojects": "bool", "no_multiprocessing": "bool",
                                           "_project": "Optional[Project]"}, pyclass=common.ClickObj)

    def m_exit(eng, s, args, kw, node):
        code = args[0] if args else eng.lift(0)
        if code.is_py:
            code = eng.lift(code.t)
        eng.raise_(s, SystemExit, where=node, code=code)
        return []
    e.func_models[_sys.exit] = m_exit

    def m_echo(eng, s, args, kw, node):
        s = s.copy()
        log = s.ghost.get("stdout")
        msg = args[0] if args else eng.lift("")
        if msg.is_py:
            msg = eng.lift(msg.t)
        nl = kw.get("nl")
        txt = msg.t if (nl is not None and nl.is_py and nl.t is False) else z3.Concat(msg.t, z3.StringVal("\n"))
        s.ghost["stdout"] = Val(STR, txt if log is None else z3.Concat(log.t, txt))
        return [(s, Val(NONE, None))]
    e.func_models[click.echo] = m_echo


def declare_paths(e):
    """pathlib observers on the abstract Path sort, os.stat, VCS strategy answers (all uninterpreted / assumed)."""
    reg = e.reg
    P = reg.sort(TAbs("Path"))
    reg.declare("abs", "Stat")

    def attr(name, rty):
        def model(eng, s, base, node):
            f = eng.uf("path_" + name, [P], reg.sort(rty))
            return [(s, Val(rty, f(base.t)))]
        return model
    e.attr_models[("Path", "name")] = attr("name", STR)
    e.attr_models[("Path", "suffix")] = attr("suffix", STR)
    e.attr_models[("Path", "stem")] = attr("stem", STR)
    e.attr_models[("Path", "parent")] = attr("parent", TAbs("Path"))
    e.attr_models[("Path", "parts")] = attr("parts", TSeq(STR))
    e.attr_models[("Path", "parents")] = attr("parents", TSet(TAbs("Path")))

    def m_resolve(eng, s, recv, name, args, kw, node):
        f = eng.uf("path_resolve", [P], P)
        return [(s, Val(TAbs("Path"), f(recv.t)))]
    e.method_models[("Path", "resolve")] = m_resolve

    # other spellings of a path (absolute(), expanduser(), os.path.abspath ...) are NOT resolve(): symlinks and '..' stay
    def m_absolute(eng, s, recv, name, args, kw, node):
        f = eng.uf("path_" + name, [P], P)
        return [(s, Val(TAbs("Path"), f(recv.t)))]
    for nm in ("absolute", "expanduser"):
        e.method_models[("Path", nm)] = m_absolute

    def m_is_relative_to(eng, s, recv, name, args, kw, node):
        f = eng.uf("path_is_relative_to", [P, P], z3.BoolSort())
        return [(s, Val(BOOL, f(recv.t, eng.coerce(args[0], TAbs("Path")).t)))]
    e.method_models[("Path", "is_relative_to")] = m_is_relative_to

    def m_stat(eng, s, recv, name, args, kw, node):
        fails = eng.uf("ghost_fs_stat_fails", [P], z3.BoolSort())(recv.t)
        if eng.spec_mode:
            f = eng.uf("fs_stat", [P], reg.sort(TAbs("Stat")))
            return [(s, Val(TAbs("Stat"), f(recv.t)))]
        bad, ok = eng.branch(s, fails, "stat")
        if bad is not None:
            eng.raise_(bad, OSError, where=node)
        if ok is None:
            return []
        f = eng.uf("fs_stat", [P], reg.sort(TAbs("Stat")))
        return [(ok, Val(TAbs("Stat"), f(recv.t)))]
    e.method_models[("Path", "stat")] = m_stat

    def a_size(eng, s, base, node):
        f = eng.uf("stat_size", [reg.sort(TAbs("Stat"))], z3.IntSort())
        return [(s, Val(INT, f(base.t)))]
    e.attr_models[("Stat", "st_size")] = a_size

    import reuse.vcs as _vcs
    reg.declare("ref", "VCSStrategyGit", fields={"root": "Path", "_all_ignored_files": "set[Path]", "_submodules": "set[Path]"},
                pyclass=_vcs.VCSStrategyGit)

    def m_vcs(eng, s, recv, name, args, kw, node):
        if name not in ("is_ignored", "is_submodule"):
            raise Unsupported(f"VCS.{name}")
        f = eng.uf("vcs_" + name, [reg.sort(TAbs("VCS")), P], z3.BoolSort())
        return [(s, Val(BOOL, f(recv.t, eng.coerce(args[0], TAbs("Path")).t)))]
    e.method_models[("VCS", "*")] = m_vcs


def declare_project(e):
    """Models for Project.reuse_info_of: defaultdict, is_binary, the global-licensing object, ReuseInfo helpers."""
    import collections
    import reuse
    from binaryornot.check import is_binary
    reg = e.reg
    GL = reg.sort(TAbs("GlobalLicensing"))
    P = reg.sort(TAbs("Path"))
    dd_ty = reg.parse("defaultdict[PrecedenceType, list[ReuseInfo]]")

    def m_defaultdict(eng, s, args, kw, node):
        if len(args) == 1:
            return [(s, Val(dd_ty, eng.empty_dict(*dd_ty.args).t))]
        return [(s, eng.coerce(args[1], dd_ty))]
    e.func_models[collections.defaultdict] = m_defaultdict

    def m_is_binary(eng, s, args, kw, node):
        f = eng.uf("ghost_is_binary", [z3.StringSort()], z3.BoolSort())
        return [(s, Val(BOOL, f(args[0].t)))]
    e.func_models[is_binary] = m_is_binary

    def m_gl(eng, s, recv, name, args, kw, node):
        if name != "reuse_info_of":
            raise Unsupported(f"GlobalLicensing.{name}")
        f = eng.uf("ghost_global_infos", [GL, P], reg.sort(reg.parse("dict[PrecedenceType, list[ReuseInfo]]")))
        return [(s, Val(reg.parse("dict[PrecedenceType, list[ReuseInfo]]"), f(recv.t, eng.coerce(args[0], TAbs("Path")).t)))]
    e.method_models[("GlobalLicensing", "*")] = m_gl

    def a_dict(eng, s, base, node):
        return [(s, py({f: eng.read_field(s, base, f) for f in reg.fields["ReuseInfo"]}))]
    e.attr_models[("ReuseInfo", "__dict__")] = a_dict

    def a_class(eng, s, base, node):
        return [(s, py(reuse.ReuseInfo))]
    e.attr_models[("ReuseInfo", "__class__")] = a_class
    for m in ("copy", "_check_nonexistent", "union", "contains_copyright_or_licensing", "contains_copyright_xor_licensing",
              "contains_info", "__or__", "__bool__"):
        e.inline_ok.add(f"reuse.ReuseInfo.{m}")

    # str(path) for paths: injective uninterpreted rendering
    def path_to_str(eng, v, ty):
        f = eng.uf("str_of_Path", [P], z3.StringSort())
        return Val(STR, f(v.t))
    e.coerce_hooks[("abs", "str")] = path_to_str


def declare_toml(e):
    """REUSE.toml object model: AnnotationsItem is abstract (its matcher is C05's obligation), ReuseTOML and
    NestedReuseTOML are value records generated from the real attrs classes."""
    import attrs
    import reuse.global_licensing as gl
    reg = e.reg
    P = reg.sort(TAbs("Path"))
    reg.declare("abs", "AnnotationsItem")
    A = reg.sort(TAbs("AnnotationsItem"))

    def item_attr(name, ty):
        def model(eng, s, base, node):
            f = eng.uf("item_" + name, [A], reg.sort(reg.parse(ty)))
            return [(s, Val(reg.parse(ty), f(base.t)))]
        return model
    e.attr_models[("AnnotationsItem", "precedence")] = item_attr("precedence", "PrecedenceType")
    e.attr_models[("AnnotationsItem", "copyright_lines")] = item_attr("copyright_lines", "set[str]")
    e.attr_models[("AnnotationsItem", "spdx_expressions")] = item_attr("spdx_expressions", "set[Expr]")

    def m_item(eng, s, recv, name, args, kw, node):
        if name != "matches":
            raise Unsupported(f"AnnotationsItem.{name}")
        f = eng.uf("ghost_item_matches", [A, z3.StringSort()], z3.BoolSort())
        return [(s, Val(BOOL, f(recv.t, eng.coerce(args[0], STR).t)))]
    e.method_models[("AnnotationsItem", "*")] = m_item
    reg.declare("data", "ReuseTOML", fields={"source": "str", "version": "int", "annotations": "list[AnnotationsItem]"},
                pyclass=gl.ReuseTOML)
    reg.declare("data", "NestedReuseTOML", fields={"source": "str", "reuse_tomls": "list[ReuseTOML]"}, pyclass=gl.NestedReuseTOML)

    e.inline_ok.add("reuse.global_licensing.ReuseTOML.directory")

    def m_as_posix(eng, s, recv, name, args, kw, node):
        t = recv.t
        # PurePath(p.as_posix()).as_posix() == p.as_posix()  (assumed pathlib fact, applied syntactically)
        if z3.is_app(t) and t.decl().name() == "ghost_path_of_str" and z3.is_app(t.arg(0)) and t.arg(0).decl().name() == "ghost_as_posix":
            return [(s, Val(STR, t.arg(0)))]
        return [(s, Val(STR, eng.uf("ghost_as_posix", [P], z3.StringSort())(t)))]
    e.method_models[("Path", "as_posix")] = m_as_posix

    def rw_as_posix(eng, cargs):
        t = cargs[0].t
        if z3.is_app(t) and t.decl().name() == "ghost_path_of_str" and z3.is_app(t.arg(0)) and t.arg(0).decl().name() == "ghost_as_posix":
            return Val(STR, t.arg(0))
        return None
    e.ufun_rewrites["as_posix"] = rw_as_posix

    def m_relative_to(eng, s, recv, name, args, kw, node):
        other = eng.coerce(args[0], TAbs("Path"))
        ok_ = eng.uf("path_is_relative_to", [P, P], z3.BoolSort())(recv.t, other.t)
        if not eng.spec_mode:
            good, bad = eng.branch(s, ok_, "relative_to")
            if bad is not None:
                eng.raise_(bad, ValueError, where=node)
            if good is None:
                return []
            s = good
        return [(s, Val(TAbs("Path"), eng.uf("ghost_relative_to", [P, P], P)(recv.t, other.t)))]
    e.method_models[("Path", "relative_to")] = m_relative_to

    def path_div(eng, s, a, b, node):
        b = eng.coerce(b, TAbs("Path"))
        return [(s, Val(TAbs("Path"), eng.uf("ghost_path_join", [P, P], P)(a.t, b.t)))]
    e.binop_models[("/", "Path")] = path_div


def declare_config(e):
    """Models for configuration loading (C16): file objects, tomlkit, python-debian, VCS root discovery."""
    import pathlib
    import tomlkit
    import reuse.report as rep
    import reuse.vcs as vcs
    import reuse.global_licensing as gl
    from pyvc.state import Exc
    reg = e.reg
    P = reg.sort(TAbs("Path"))
    for nm in ("TextFile", "TomlDict", "ReuseDep5", "Copyright"):
        reg.declare("abs", nm)
    reg.declare("ref", "_MultiprocessingContainer",
                fields={"project": "Project", "has_dep5": "bool", "reuse_dep5": "Optional[ReuseDep5]", "do_checksum": "bool",
                        "add_license_concluded": "bool"}, pyclass=rep._MultiprocessingContainer)

    def m_open(eng, s, recv, name, args, kw, node):
        fails = eng.uf("fs_open_fails", [P], z3.BoolSort())(recv.t)
        bad, ok = eng.branch(s, fails, "open")
        if bad is not None:
            eng.raise_(bad, FileNotFoundError, where=node)
        if ok is None:
            return []
        return [(ok, eng.fresh(TAbs("TextFile"), "fp"))]
    e.method_models[("Path", "open")] = m_open

    def with_file(eng, s, cm, var, body):
        if var is not None:
            eng.assign_target(s, var, cm)
        return eng.exec_block(body, s)
    e.with_models["TextFile"] = with_file

    def m_file(eng, s, recv, name, args, kw, node):
        if name != "read":
            raise Unsupported(f"TextFile.{name}")
        bad = s.copy()
        bad.trace.append("read:undecodable")
        eng.raise_(bad, UnicodeDecodeError, where=node)
        return [(s, eng.fresh(STR, "file_text"))]
    e.method_models[("TextFile", "*")] = m_file

    def m_loads(eng, s, args, kw, node):
        bad = s.copy()
        bad.trace.append("toml:syntax")
        eng.raise_(bad, tomlkit.exceptions.TOMLKitError, where=node)
        return [(s, eng.fresh(TAbs("TomlDict"), "tomldict"))]
    e.func_models[tomlkit.loads] = m_loads

    from debian.copyright import Copyright
    from debian.copyright import Error as DebianError

    def m_copyright(eng, s, args, kw, node):
        for exc in (DebianError, ValueError, UnicodeDecodeError):
            bad = s.copy()
            bad.trace.append("dep5:" + exc.__name__)
            eng.raise_(bad, exc, where=node)
        return [(s, eng.fresh(TAbs("Copyright"), "dep5"))]
    e.func_models[Copyright] = m_copyright

    def m_reusedep5(eng, s, args, kw, node):
        return [(s, eng.fresh(TAbs("ReuseDep5"), "reuse_dep5"))]
    e.func_models[gl.ReuseDep5] = m_reusedep5

    def dep5_as_gl(eng, v, ty):
        f = eng.uf("as_global_licensing", [reg.sort(TAbs("ReuseDep5"))], reg.sort(TAbs("GlobalLicensing")))
        return Val(TAbs("GlobalLicensing"), f(v.t))
    e.coerce_hooks[("abs", "GlobalLicensing")] = dep5_as_gl

    def m_find_root(eng, s, args, kw, node):
        return [(s, eng.fresh(TOpt(TAbs("Path")), "found_root"))]
    e.func_models[vcs.find_root] = m_find_root

    def m_cwd(eng, s, recv, args, kw, node=None):
        return [(s, eng.fresh(TAbs("Path"), "cwd"))]
    e.func_models[pathlib.Path.cwd.__func__] = lambda eng, s, args, kw, node: [(s, eng.fresh(TAbs("Path"), "cwd"))]

    # attributes / str() of caught exception objects: opaque strings
    def exc_attr(name):
        def model(eng, s, base, node):
            v = base.t.attrs.get(name)
            if isinstance(v, Val):
                return [(s, v)]
            return [(s, eng.fresh(STR, "exc_" + name))]
        return model
    for a in ("source", "filename", "args"):
        e.py_attr_models[(Exc, a)] = exc_attr(a)

    def exc_to_pyexc(eng, v, ty):
        return eng.fresh(TAbs("PyExc"), "exc_value")
    e.coerce_hooks[("Exc", "PyExc")] = exc_to_pyexc


def declare_effects(e):
    """Ghost file-system effects (DESIGN 3.5) as monotone sets: fs_written (created / truncated / written paths),
    fs_dirs (mkdir), fs_removed (unlink), and fs_written_at_unlink (snapshot of fs_written taken by the last unlink, which
    is what 'removed only after written' needs)."""
    import builtins
    import os as _os
    import pathlib
    import shutil
    reg = e.reg
    P = reg.sort(TAbs("Path"))
    PS = TSet(TAbs("Path"))
    for g in ("fs_written", "fs_dirs", "fs_removed", "fs_written_at_unlink", "annotate_visited"):
        e.ghost_defaults[g] = (lambda name: (lambda eng: Val(PS, z3.Const(name + "0", reg.sort(PS)))))(g)

    def add(eng, s, gname, path):
        cur = eng.lookup(gname, s)
        s.ghost[gname] = eng.set_add(cur, path)

    def m_effect(gname):
        def model(eng, s, recv, name, args, kw, node):
            s = s.copy()
            add(eng, s, gname, recv)
            if gname == "fs_removed":
                s.ghost["fs_written_at_unlink"] = eng.lookup("fs_written", s)
            return [(s, Val(NONE, None))]
        return model
    e.method_models[("Path", "touch")] = m_effect("fs_written")
    e.method_models[("Path", "mkdir")] = m_effect("fs_dirs")
    e.method_models[("Path", "unlink")] = m_effect("fs_removed")
    def m_write_text(eng, s, recv, name, args, kw, node):
        bad = s.copy()
        bad.trace.append("write_text:fails")
        eng.raise_(bad, OSError, where=node)          # a failed write: no effect recorded
        s = s.copy()
        add(eng, s, "fs_written", recv)
        return [(s, Val(NONE, None))]
    e.method_models[("Path", "write_text")] = m_write_text

    def m_strerror(eng, s, args, kw, node):
        return [(s, eng.fresh(STR, "strerror"))]
    e.func_models[_os.strerror] = m_strerror

    def m_copyfile(eng, s, args, kw, node):
        s = s.copy()
        add(eng, s, "fs_written", eng.coerce(args[1], TAbs("Path")))
        return [(s, Val(NONE, None))]
    e.func_models[shutil.copyfile] = m_copyfile

    # open(): a mode with w/a/x/+ truncates or creates the file at open time
    reg.declare("abs", "OutFile")
    prev_open = e.method_models.get(("Path", "open"))

    def m_path_open(eng, s, recv, name, args, kw, node):
        mode = args[0] if args else kw.get("mode")
        mode_s = "r" if mode is None else (mode.t if mode.is_py else mode.t.as_string())
        if any(ch in mode_s for ch in "wax+"):
            s = s.copy()
            add(eng, s, "fs_written", recv)
            return [(s, eng.fresh(TAbs("OutFile"), "out"))]
        return prev_open(eng, s, recv, name, [], {}, node)
    e.method_models[("Path", "open")] = m_path_open

    def m_builtin_open(eng, s, args, kw, node):
        path = eng.coerce(args[0], TAbs("Path"))
        mode = args[1] if len(args) > 1 else kw.get("mode")
        return m_path_open(eng, s, path, "open", [mode] if mode is not None else [], {}, node)
    e.func_models[builtins.open] = m_builtin_open

    def with_out(eng, s, cm, var, body):
        if var is not None:
            eng.assign_target(s, var, cm)
        return eng.exec_block(body, s)
    e.with_models["OutFile"] = with_out

    def m_outfile(eng, s, recv, name, args, kw, node):
        return [(s, Val(NONE, None))]      # fp.write(...): content is not modelled, the effect is recorded at open
    e.method_models[("OutFile", "*")] = m_outfile


def declare_annotate(e):
    """Models for the annotate path: comment-style lookup (abstract), output stream, templates, ReuseInfo argument."""
    import reuse._annotate as ann
    import reuse.comment as comment
    reg = e.reg
    for nm in ("Style", "OutStream"):
        reg.declare("abs", nm)
    reg.aliases["Template"] = TAbs("Template")
    ST = reg.sort(TAbs("Style"))

    # NAME_STYLE_MAP.get(name): an abstract lookup (the table itself is enumerated by the C07/C10 checks)
    class StyleMap:
        pass
    sm = StyleMap()
    e.const_overrides[("reuse._annotate", "NAME_STYLE_MAP")] = sm
    e.const_overrides[("reuse.cli.annotate", "NAME_STYLE_MAP")] = sm

    def stylemap_get(eng, s, base, node):
        from pyvc.ev_call import BoundMethod
        return [(s, py(BoundMethod(base, "get")))]
    e.py_attr_models[(StyleMap, "get")] = stylemap_get

    def m_stylemap_get(eng, s, bm, args, kw, node):
        key = args[0]
        f = eng.uf("ghost_style_by_name", [reg.sort(TOpt(STR))], reg.sort(TOpt(TAbs("Style"))))
        return [(s, Val(TOpt(TAbs("Style")), f(eng.coerce(key, TOpt(STR)).t)))]
    e.py_method_models[(StyleMap, "get")] = m_stylemap_get

    # the EmptyCommentStyle class object, as a Style value
    def style_const(eng, v, ty):
        f = eng.uf("ghost_style_const_" + v.t.__name__, [], ST)
        return Val(TAbs("Style"), f())
    e.coerce_hooks[("type", "Style")] = style_const

    import io

    def stdout_as_stream(eng, v, ty):
        return Val(TAbs("OutStream"), eng.uf("ghost_stdout", [], reg.sort(TAbs("OutStream")))())
    e.coerce_hooks[("TextIOWrapper", "OutStream")] = stdout_as_stream
    e.coerce_hooks[("EncodedFile", "OutStream")] = stdout_as_stream
    e.coerce_hooks[("StringIO", "OutStream")] = stdout_as_stream

    def gl_attr(eng, s, base, node):
        f = eng.uf("ghost_dep5_copyright", [reg.sort(TAbs("GlobalLicensing"))], reg.sort(TAbs("Copyright")))
        return [(s, Val(TAbs("Copyright"), f(base.t)))]
    e.attr_models[("GlobalLicensing", "dep5_copyright")] = gl_attr

    def m_out(eng, s, recv, name, args, kw, node):
        return [(s, Val(NONE, None))]      # writes to stdout: no file-system effect
    e.method_models[("OutStream", "*")] = m_out


def declare_copyright(e):
    """re.match/search/fullmatch(pattern_text, subject) with a literal pattern: compiled natively, then the language of
    the compiled pattern (pyvc.rx); datetime.date.today().year as an uninterpreted constant."""
    import re as _re
    import datetime

    def mk(method):
        def model(eng, s, args, kw, node):
            pat = args[0]
            if not pat.is_py:
                if z3.is_string_value(pat.t):
                    pat = py(pat.t.as_string())
                else:
                    raise Unsupported("re function with a symbolic pattern")
            flags = args[2].t if len(args) > 2 else (kw["flags"].t if "flags" in kw else 0)
            return eng.re_call(s, _re.compile(pat.t, flags), method, [args[1]], {}, node)
        return model
    for m in ("match", "search", "fullmatch"):
        e.func_models[getattr(_re, m)] = mk(m)

    class Today:
        pass

    def m_today(eng, s, args, kw, node):
        return [(s, py(Today()))]
    e.func_models[datetime.date.today] = m_today

    def today_year(eng, s, base, node):
        return [(s, Val(INT, eng.uf("ghost_current_year", [], z3.IntSort())()))]
    e.py_attr_models[(Today, "year")] = today_year


def declare_header(e):
    """The writer's two abstract stages for the header functions: template.render(...) is ANY function of the template and
    the three (sorted) sequences it is given; style.create_comment(text, force_multi) is any function of the style, the text
    and the flag, and may fail with CommentCreateError."""
    from reuse.exceptions import CommentCreateError
    reg = e.reg
    T, ST = reg.sort(TAbs("Template")), reg.sort(TAbs("Style"))
    LS = reg.sort(TSeq(STR))

    def template_const(eng, v, ty):
        return Val(TAbs("Template"), eng.uf("ghost_default_template", [], T)())
    e.coerce_hooks[("Template", "Template")] = template_const

    def m_template(eng, s, recv, name, args, kw, node):
        if name != "render" or args or set(kw) != {"copyright_lines", "contributor_lines", "spdx_expressions"}:
            raise Unsupported(f"Template.{name} with these arguments")
        f = eng.uf("ghost_rendered", [T, LS, LS, LS], z3.StringSort())
        a = [eng.coerce(kw[k], TSeq(STR)).t for k in ("copyright_lines", "contributor_lines", "spdx_expressions")]
        return [(s, Val(STR, f(recv.t, *a)))]
    e.method_models[("Template", "*")] = m_template

    def m_style(eng, s, recv, name, args, kw, node):
        if name != "create_comment":
            raise Unsupported(f"Style.{name}")
        text = eng.coerce(args[0], STR)
        force = kw.get("force_multi", args[1] if len(args) > 1 else eng.lift(False))
        force = eng.coerce(force, BOOL)
        fails = eng.uf("ghost_comment_fails", [ST, z3.StringSort(), z3.BoolSort()], z3.BoolSort())(recv.t, text.t, force.t)
        ok, bad = eng.branch(s, z3.Not(fails), "create_comment")
        if bad is not None:
            eng.raise_(bad, CommentCreateError, where=node)
        if ok is None:
            return []
        f = eng.uf("ghost_commented", [ST, z3.StringSort(), z3.BoolSort()], z3.StringSort())
        return [(ok, Val(STR, f(recv.t, text.t, force.t)))]
    e.method_models[("Style", "*")] = m_style


def declare_header_sections(e):
    """_TextSections (NamedTuple of three strings) and the comment finder of a style."""
    import reuse.header as H
    from reuse.exceptions import CommentParseError
    reg = e.reg
    reg.declare("data", "_TextSections", fields={"before": "str", "middle": "str", "after": "str"}, pyclass=H._TextSections)
    ST = reg.sort(TAbs("Style"))
    prev = e.method_models.get(("Style", "*"))

    def m_style2(eng, s, recv, name, args, kw, node):
        if name in ("can_handle_single", "can_handle_multi"):
            f = eng.uf("ghost_can_" + name.split("_")[-1], [ST], z3.BoolSort())
            return [(s, Val(BOOL, f(recv.t)))]
        if name != "comment_at_first_character":
            return prev(eng, s, recv, name, args, kw, node)
        text = eng.coerce(args[0], STR)
        fails = eng.uf("ghost_no_comment_at", [ST, z3.StringSort()], z3.BoolSort())(recv.t, text.t)
        ok, bad = eng.branch(s, z3.Not(fails), "comment_at_first_character")
        if bad is not None:
            eng.raise_(bad, CommentParseError, where=node)
        if ok is None:
            return []
        c = eng.uf("ghost_comment_at", [ST, z3.StringSort()], z3.StringSort())(recv.t, text.t)
        # the block is an initial segment of the text that ends at a line end (assumption: '\n' is the only line boundary
        # in the normalised text - str.splitlines also splits at form feeds and the like)
        ok.assume(z3.PrefixOf(c, text.t))
        ok.assume(z3.Or(z3.Length(c) == z3.Length(text.t), z3.SubString(text.t, z3.Length(c), 1) == z3.StringVal("\n")))
        return [(ok, Val(STR, c))]
    e.method_models[("Style", "*")] = m_style2
