"""Sidecar contracts for reuse.project (C04, C06)."""
from pyvc.api import contract, spec, lemma, implies, forall, exists, in_lang, ufun, use, reveal, LoopSpec
import reuse.project as _p
from reuse.exceptions import SpdxIdentifierNotFoundError

LICENSEREF = _p._LICENSEREF_PATTERN.pattern      # read from the real module: "LicenseRef-[a-zA-Z0-9-.]+$"


@spec
def is_licenseref(s):
    # match() semantics of the real pattern: anchored at the start, '$' at the end (or before a final newline)
    return in_lang(r"LicenseRef-[a-zA-Z0-9\-.]+\n?", s)


@contract("reuse.project.Project._identifier_of_license", serves=["C06"])
class IdentifierOfLicense:
    types = {"self": "Project", "path": "Path", "return": "str"}
    raises_iff = {SpdxIdentifierNotFoundError:
                  lambda self, path: (path.suffix == "" or path.name in self.license_map
                                      or (path.stem not in self.license_map and not is_licenseref(path.stem)))}

    def post(self, path, result):
        # the identifier of LICENSES/<stem><suffix> is its stem, accepted when on the SPDX maps or a LicenseRef-
        return result == path.stem


# ---- C04: per-file sources and precedence ------------------------------------------------------------------------------
from reuse.global_licensing import PrecedenceType

infos_of = ufun("infos_of", ["Project", "Path"], "list[ReuseInfo]")
own_info = ufun("own_info", ["Path", "Path", "Path"], "ReuseInfo")
global_infos = ufun("global_infos", ["GlobalLicensing", "Path"], "dict[PrecedenceType, list[ReuseInfo]]")
is_binary_file = ufun("is_binary", ["str"], "bool")
relative_of = ufun("relative_of", ["Path", "Path"], "Path")
path_of_str = ufun("path_of_str", ["str"], "Path")


@spec
def license_path(path):
    """FILE.license if it exists, otherwise FILE (an adjacent .license file replaces the file's own content)"""
    sibling = path_of_str(str(path) + ".license")
    return sibling if sibling.exists() else path


@contract("reuse._util._determine_license_path", serves=["C04"])
class DetermineLicensePath:
    types = {"path": "Path", "return": "Path"}

    def post(path, result):
        return result == license_path(path)


@contract("reuse.extract.reuse_info_of_file", serves=["C04"], assumed=True,
          why="what a file declares is C02's obligation; here the result is the ghost record own_info(path, original_path, root)")
class ReuseInfoOfFileAssumed:
    types = {"path": "Path", "original_path": "Path", "root": "Path", "return": "ReuseInfo"}

    def post(path, original_path, root, result):
        return result == own_info(path, original_path, root)


@spec
def has_c(infos, v, sp, st):
    """(copyright line v, source sp, source type st) is among what `infos` attributes"""
    return exists(lambda i: i in infos and v in i.copyright_lines and i.source_path == sp and i.source_type == st, "ReuseInfo")


@spec
def has_l(infos, x, sp, st):
    return exists(lambda i: i in infos and x in i.spdx_expressions and i.source_path == sp and i.source_type == st, "ReuseInfo")


@spec
def dget(d, k):
    return d[k] if k in d else []


@contract("reuse.project.Project.reuse_info_of", serves=["C04", "C01"])
class ProjectReuseInfoOf:
    types = {"self": "Project", "path": "Path", "return": "list[ReuseInfo]"}
    # an arbitrary (value, source, source type) triple of each kind: what the JSON exposes per item
    ghost = {"v0": "str", "x0": "Expr", "sp0": "Optional[str]", "st0": "Optional[SourceType]"}
    # callers (FileReport.generate) refer to the result through the ghost function infos_of(project, path)
    result_name = lambda self, path: infos_of(self, path)
    name_only_at_calls = True       # FileReport.generate needs the name only; the postcondition is C04's own obligation

    def post(self, path, result, v0, x0, sp0, st0):
        lp = license_path(path)
        G = global_infos(self.global_licensing, relative_of(self.root, path)) if self.global_licensing is not None else {}
        ov = dget(G, PrecedenceType.OVERRIDE)
        agg = dget(G, PrecedenceType.AGGREGATE)
        clo = dget(G, PrecedenceType.CLOSEST)
        own = own_info(lp, path, self.root)
        readable = not is_binary_file(str(lp))
        mine_c = readable and v0 in own.copyright_lines and own.source_path == sp0 and own.source_type == st0
        mine_l = readable and x0 in own.spdx_expressions and own.source_path == sp0 and own.source_type == st0
        own_has_c = readable and bool(own.copyright_lines)
        own_has_l = readable and bool(own.spdx_expressions)
        has_override = PrecedenceType.OVERRIDE in G
        return (
            # override: REUSE.toml is the only source (the file is not read).  The override tables are reported, and - as
            # the statement says of `aggregate` (adds) and `closest` (supplies what the file lacks; an unread file lacks
            # both) - so are the aggregate and closest tables of shallower REUSE.toml files: nothing more, nothing less
            implies(has_override, has_c(result, v0, sp0, st0)
                    == (has_c(ov, v0, sp0, st0) or has_c(agg, v0, sp0, st0) or has_c(clo, v0, sp0, st0)))
            and implies(has_override, has_l(result, x0, sp0, st0)
                        == (has_l(ov, x0, sp0, st0) or has_l(agg, x0, sp0, st0) or has_l(clo, x0, sp0, st0)))
            # otherwise: aggregate adds to the file's own; closest supplies whichever of copyright / licensing the file lacks
            and implies(not has_override,
                        has_c(result, v0, sp0, st0)
                        == (has_c(agg, v0, sp0, st0) or mine_c or (not own_has_c and has_c(clo, v0, sp0, st0))))
            and implies(not has_override,
                        has_l(result, x0, sp0, st0)
                        == (has_l(agg, x0, sp0, st0) or mine_l or (not own_has_l and has_l(clo, x0, sp0, st0)))))

    loops = {
        # for closest in global_results[CLOSEST]  (file has exactly one of copyright / licensing)
        2: LoopSpec(
            inv=lambda result, old_result, file_result, _i, _it, v0, x0, sp0, st0: (
                set(_it) == set(_it)       # states the index <-> element-set link for the iterated list
                and has_c(result, v0, sp0, st0)
                == (has_c(old_result, v0, sp0, st0)
                    or (not file_result.copyright_lines
                        and exists(lambda j: 0 <= j and j < _i and v0 in _it[j].copyright_lines and _it[j].source_path == sp0
                                   and _it[j].source_type == st0, "int")))
                and has_l(result, x0, sp0, st0)
                == (has_l(old_result, x0, sp0, st0)
                    or (bool(file_result.copyright_lines)
                        and exists(lambda j: 0 <= j and j < _i and x0 in _it[j].spdx_expressions and _it[j].source_path == sp0
                                   and _it[j].source_type == st0, "int")))),
            types={"closest": "ReuseInfo"}),
    }
