"""Sidecar contracts for reuse.project (C04, C06)."""
from pyvc.api import contract, spec, lemma, implies, forall, exists, in_lang, ufun, use, reveal, LoopSpec
import reuse.project as _p
from reuse.exceptions import SpdxIdentifierNotFoundError

LICENSEREF = _p._LICENSEREF_PATTERN.pattern      # read from the real module: "LicenseRef-[a-zA-Z0-9-.]+$"


@spec
def is_licenseref(s):
    # match() semantics of the real pattern: anchored at the start, '$' at the end (or before a final newline)
    return in_lang(r"LicenseRef-[a-zA-Z0-9\-.]+\n?", s)


@contract("reuse.project.Project._identifier_of_license", serves=["C06"])
class IdentifierOfLicense:
    types = {"self": "Project", "path": "Path", "return": "str"}
    raises_iff = {SpdxIdentifierNotFoundError:
                  lambda self, path: (path.suffix == "" or path.name in self.license_map
                                      or (path.stem not in self.license_map and not is_licenseref(path.stem)))}

    def post(self, path, result):
        # the identifier of LICENSES/<stem><suffix> is its stem, accepted when on the SPDX maps or a LicenseRef-
        return result == path.stem
