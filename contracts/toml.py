"""Sidecar contracts for the REUSE.toml object model in reuse.global_licensing (C04)."""
from pyvc.api import contract, spec, lemma, implies, forall, exists, ufun, use, reveal, LoopSpec
from reuse import ReuseInfo, SourceType
from reuse.global_licensing import PrecedenceType

as_posix = ufun("as_posix", ["Path"], "str")
item_matches = ufun("item_matches", ["AnnotationsItem", "str"], "bool")
rel_items = ufun("rel_items", ["NestedReuseTOML", "Path"], "list[tuple[ReuseTOML, AnnotationsItem]]")


# ---- within one REUSE.toml the LAST matching [[annotations]] table applies -----------------------------------------
@spec(opaque=True)
def is_last_match(anns: "list[AnnotationsItem]", p: str, result: "Optional[AnnotationsItem]") -> bool:
    """result is the applicable table: the LAST element of anns that matches p (None when none does)"""
    return ((result is None and forall(lambda j: implies(0 <= j and j < len(anns), not item_matches(anns[j], p)), "int"))
            or exists(lambda r: 0 <= r and r < len(anns) and result == anns[r] and item_matches(anns[r], p)
                      and forall(lambda j: implies(r < j and j < len(anns), not item_matches(anns[j], p)), "int"), "int"))


@contract("reuse.global_licensing.ReuseTOML.find_annotations_item", serves=["C04", "C05"])
class FindAnnotationsItem:
    types = {"self": "ReuseTOML", "path": "Path", "return": "Optional[AnnotationsItem]"}

    def post(self, path, result):
        return reveal(is_last_match(self.annotations, as_posix(path), result)) and is_last_match(self.annotations, as_posix(path), result)

    # reversed(): after _i iterations the tables annotations[len-_i:] have been tried and none matched
    loops = {0: LoopSpec(original_order=True, inv=lambda self, path, _i, _it: forall(
        lambda j: implies(len(_it) - _i <= j and j < len(_it), not item_matches(_it[j], path)), "int"))}


@lemma(types={"anns": "list[AnnotationsItem]", "p": "str", "a": "Optional[AnnotationsItem]", "b": "Optional[AnnotationsItem]"},
       serves=["C04"], name="applicable-table-is-unique")
def last_match_unique(anns, p, a, b):
    # the applicable table is determined by the table list and the path (sequence positions; equal tables are equal)
    return implies(reveal(is_last_match(anns, p, a)) and reveal(is_last_match(anns, p, b))
                   and is_last_match(anns, p, a) and is_last_match(anns, p, b), a == b)


@spec
def info_of_item(item, p):
    return ReuseInfo(spdx_expressions=item.spdx_expressions, copyright_lines=item.copyright_lines, path=p,
                     source_path="REUSE.toml", source_type=SourceType.REUSE_TOML)


@contract("reuse.global_licensing.ReuseTOML.reuse_info_of", serves=["C04"])
class ReuseTomlInfoOf:
    types = {"self": "ReuseTOML", "path": "Path", "return": "dict[PrecedenceType, list[ReuseInfo]]"}
    ghost = {"it0": "Optional[AnnotationsItem]"}

    def post(self, path, result, it0):
        # the applicable table (last match) is reported under ITS precedence, naming REUSE.toml as the source
        return implies(use(last_match_unique, self.annotations, as_posix(path)) and is_last_match(self.annotations, as_posix(path), it0),
                       (it0 is None and result == {})
                       or (it0 is not None and result == {it0.precedence: [info_of_item(it0, as_posix(path))]}))


# ---- the nested walk: closest clean-up keeps, per kind of information, the NEAREST provider ---------------------------
@spec
def nearest_c(C, e):
    """e is the copyright part of the last (= nearest, the chain is outermost-first) entry of C that has copyright"""
    return exists(lambda j: 0 <= j and j < len(C) and bool(C[j].copyright_lines) and e == C[j]
                  and forall(lambda m: implies(j < m and m < len(C), not C[m].copyright_lines), "int"), "int")


@spec
def nearest_l(C, e):
    return exists(lambda j: 0 <= j and j < len(C) and bool(C[j].spdx_expressions) and e == C[j]
                  and forall(lambda m: implies(j < m and m < len(C), not C[m].spdx_expressions), "int"), "int")


@spec
def dget(d, k):
    return d[k] if k in d else []


path_join = ufun("path_join", ["Path", "Path"], "Path")
rel_to = ufun("relative_to", ["Path", "Path"], "Path")
path_of_str = ufun("path_of_str", ["str"], "Path")


@spec
def rel_items_wf(self, path, R):
    """what the finder guarantees for every (toml, item) it returns: the toml's directory contains the file, the item
    is the toml's applicable (last matching) table for the file's path relative to that directory, and the toml lies
    below the project root"""
    adjusted = path_join(path_of_str(self.source), path)
    return forall(lambda k: implies(0 <= k and k < len(R),
                                    adjusted.is_relative_to(R[k][0].directory)
                                    and is_last_match(R[k][0].annotations, as_posix(rel_to(adjusted, R[k][0].directory)), R[k][1])
                                    and path_of_str(R[k][0].source).is_relative_to(path_of_str(self.source))), "int")


@contract("reuse.global_licensing.NestedReuseTOML._find_relevant_tomls_and_items", serves=["C04"], assumed=True,
          why="ancestor REUSE.toml files sorted outermost-first with their last matching table (sort key and lexical path "
              "relations are assumed; find_annotations_item is under contract)")
class FindRelevantTomlsAndItems:
    types = {"self": "NestedReuseTOML", "path": "Path", "return": "list[tuple[ReuseTOML, AnnotationsItem]]"}

    def post(self, path, result):
        return result == rel_items(self, path) and rel_items_wf(self, path, result)


@spec
def kept_c(L, v, sp):
    return exists(lambda r: r in L and v in r.copyright_lines and r.source_path == sp, "ReuseInfo")


@spec
def kept_l(L, x, sp):
    return exists(lambda r: r in L and x in r.spdx_expressions and r.source_path == sp, "ReuseInfo")


@spec
def nearest_c_has(C, v, sp):
    """(v, sp) is a copyright line of the LAST entry of C that has copyright (C is outermost-first: last = nearest)"""
    return exists(lambda j: 0 <= j and j < len(C) and bool(C[j].copyright_lines) and v in C[j].copyright_lines
                  and C[j].source_path == sp
                  and forall(lambda m: implies(j < m and m < len(C), not C[m].copyright_lines), "int"), "int")


@spec
def nearest_l_has(C, x, sp):
    return exists(lambda j: 0 <= j and j < len(C) and bool(C[j].spdx_expressions) and x in C[j].spdx_expressions
                  and C[j].source_path == sp
                  and forall(lambda m: implies(j < m and m < len(C), not C[m].spdx_expressions), "int"), "int")


@spec(opaque=True)
def first_c_has(R: "list[ReuseInfo]", n: int, v: str, sp: "Optional[str]") -> bool:
    """(v, sp) is a copyright line of the FIRST entry among R[0..n) that has copyright (R is innermost-first)"""
    return exists(lambda j: 0 <= j and j < n and j < len(R) and bool(R[j].copyright_lines) and v in R[j].copyright_lines
                  and R[j].source_path == sp
                  and forall(lambda m: implies(0 <= m and m < j, not R[m].copyright_lines), "int"), "int")


@spec(opaque=True)
def first_l_has(R: "list[ReuseInfo]", n: int, x: "Expr", sp: "Optional[str]") -> bool:
    return exists(lambda j: 0 <= j and j < n and j < len(R) and bool(R[j].spdx_expressions) and x in R[j].spdx_expressions
                  and R[j].source_path == sp
                  and forall(lambda m: implies(0 <= m and m < j, not R[m].spdx_expressions), "int"), "int")


_TF = {"R": "list[ReuseInfo]", "n": "int", "v": "str", "sp": "Optional[str]"}
_TFX = {"R": "list[ReuseInfo]", "n": "int", "x": "Expr", "sp": "Optional[str]"}


@lemma(types=_TF, serves=["C04"], name="first-copyright-provider-step")
def first_c_step(R, n, v, sp):
    return implies(reveal(first_c_has(R, n, v, sp)) and reveal(first_c_has(R, n + 1, v, sp)) and 0 <= n and n < len(R),
                   first_c_has(R, n + 1, v, sp)
                   == (first_c_has(R, n, v, sp)
                       or (bool(R[n].copyright_lines) and v in R[n].copyright_lines and R[n].source_path == sp
                           and forall(lambda m: implies(0 <= m and m < n, not R[m].copyright_lines), "int"))))


@lemma(types={"R": "list[ReuseInfo]", "v": "str", "sp": "Optional[str]"}, serves=["C04"], name="first-copyright-provider-base")
def first_c_base(R, v, sp):
    return implies(reveal(first_c_has(R, 0, v, sp)), not first_c_has(R, 0, v, sp))


@lemma(types=_TFX, serves=["C04"], name="first-licence-provider-step")
def first_l_step(R, n, x, sp):
    return implies(reveal(first_l_has(R, n, x, sp)) and reveal(first_l_has(R, n + 1, x, sp)) and 0 <= n and n < len(R),
                   first_l_has(R, n + 1, x, sp)
                   == (first_l_has(R, n, x, sp)
                       or (bool(R[n].spdx_expressions) and x in R[n].spdx_expressions and R[n].source_path == sp
                           and forall(lambda m: implies(0 <= m and m < n, not R[m].spdx_expressions), "int"))))


@lemma(types={"R": "list[ReuseInfo]", "x": "Expr", "sp": "Optional[str]"}, serves=["C04"], name="first-licence-provider-base")
def first_l_base(R, x, sp):
    return implies(reveal(first_l_has(R, 0, x, sp)), not first_l_has(R, 0, x, sp))


@contract("reuse.global_licensing.NestedReuseTOML.reuse_info_of", serves=["C04"])
class NestedInfoOf:
    types = {"self": "NestedReuseTOML", "path": "Path", "return": "dict[PrecedenceType, list[ReuseInfo]]"}
    ghost = {"v0": "str", "x0": "Expr", "sp0": "Optional[str]"}

    def post(self, path, result, C0, v0, x0, sp0):
        clo = dget(result, PrecedenceType.CLOSEST)
        return (
            # copyright: exactly the lines of the nearest closest-table that has any, attributed to that table
            # (C0 is the chain's CLOSEST list outermost-first; "nearest" = first provider when read innermost-first)
            kept_c(clo, v0, sp0) == first_c_has(reversed(C0), len(C0), v0, sp0)
            # licensing: likewise, independently of copyright
            and kept_l(clo, x0, sp0) == first_l_has(reversed(C0), len(C0), x0, sp0)
            # an empty CLOSEST list is not left behind
            and implies(PrecedenceType.CLOSEST in result, len(clo) > 0))

    loops = {
        # walk over the relevant REUSE.toml files, outermost first, until the first override
        0: LoopSpec(inv=lambda result: True, types={"toml": "ReuseTOML", "item": "AnnotationsItem", "relpath": "Path", "info": "ReuseInfo"}),
        # clean-up of CLOSEST, nearest first
        1: LoopSpec(
            capture={"C0": lambda result: dget(result, PrecedenceType.CLOSEST)},
            inv=lambda to_keep, copyright_found, licence_found, _i, _it, C0, v0, x0, sp0: (
                _it == reversed(C0)
                and use(first_c_step, _it, _i, v0, sp0) and use(first_c_base, _it, v0, sp0)
                and use(first_l_step, _it, _i, x0, sp0) and use(first_l_base, _it, x0, sp0)
                and copyright_found == exists(lambda j: 0 <= j and j < _i and bool(_it[j].copyright_lines), "int")
                and licence_found == exists(lambda j: 0 <= j and j < _i and bool(_it[j].spdx_expressions), "int")
                and kept_c(to_keep, v0, sp0) == first_c_has(_it, _i, v0, sp0)
                and kept_l(to_keep, x0, sp0) == first_l_has(_it, _i, x0, sp0)
                and (len(to_keep) > 0) == (copyright_found or licence_found)),
            types={"new_info": "ReuseInfo", "to_keep": "list[ReuseInfo]"}),
    }
