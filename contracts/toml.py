"""Sidecar contracts for the REUSE.toml object model in reuse.global_licensing (C04)."""
from pyvc.api import contract, spec, lemma, implies, forall, exists, ufun, use, reveal, LoopSpec
from reuse import ReuseInfo, SourceType
from reuse.global_licensing import PrecedenceType

as_posix = ufun("as_posix", ["Path"], "str")
item_matches = ufun("item_matches", ["AnnotationsItem", "str"], "bool")
rel_items = ufun("rel_items", ["NestedReuseTOML", "Path"], "list[tuple[ReuseTOML, AnnotationsItem]]")


# ---- within one REUSE.toml the LAST matching [[annotations]] table applies -----------------------------------------
@spec
def is_last_match(anns, p, result):
    return ((result is None and forall(lambda j: implies(0 <= j and j < len(anns), not item_matches(anns[j], p)), "int"))
            or exists(lambda r: 0 <= r and r < len(anns) and result == anns[r] and item_matches(anns[r], p)
                      and forall(lambda j: implies(r < j and j < len(anns), not item_matches(anns[j], p)), "int"), "int"))


@contract("reuse.global_licensing.ReuseTOML.find_annotations_item", serves=["C04", "C05"])
class FindAnnotationsItem:
    types = {"self": "ReuseTOML", "path": "Path", "return": "Optional[AnnotationsItem]"}

    def post(self, path, result):
        return is_last_match(self.annotations, as_posix(path), result)

    loops = {0: LoopSpec(inv=lambda self, path, _i, _it: forall(
        lambda j: implies(0 <= j and j < _i, not item_matches(_it[j], path)), "int"))}


@spec
def info_of_item(item, p):
    return ReuseInfo(spdx_expressions=item.spdx_expressions, copyright_lines=item.copyright_lines, path=p,
                     source_path="REUSE.toml", source_type=SourceType.REUSE_TOML)


@contract("reuse.global_licensing.ReuseTOML.reuse_info_of", serves=["C04"])
class ReuseTomlInfoOf:
    types = {"self": "ReuseTOML", "path": "Path", "return": "dict[PrecedenceType, list[ReuseInfo]]"}
    ghost = {"it0": "Optional[AnnotationsItem]"}

    def post(self, path, result, it0):
        # the applicable table (last match) is reported under ITS precedence, naming REUSE.toml as the source
        return implies(is_last_match(self.annotations, as_posix(path), it0),
                       (it0 is None and result == {})
                       or (it0 is not None and result == {it0.precedence: [info_of_item(it0, as_posix(path))]}))


# ---- the nested walk: closest clean-up keeps, per kind of information, the NEAREST provider ---------------------------
@spec
def nearest_c(C, e):
    """e is the copyright part of the last (= nearest, the chain is outermost-first) entry of C that has copyright"""
    return exists(lambda j: 0 <= j and j < len(C) and bool(C[j].copyright_lines) and e == C[j]
                  and forall(lambda m: implies(j < m and m < len(C), not C[m].copyright_lines), "int"), "int")


@spec
def nearest_l(C, e):
    return exists(lambda j: 0 <= j and j < len(C) and bool(C[j].spdx_expressions) and e == C[j]
                  and forall(lambda m: implies(j < m and m < len(C), not C[m].spdx_expressions), "int"), "int")


@spec
def dget(d, k):
    return d[k] if k in d else []


@contract("reuse.global_licensing.NestedReuseTOML._find_relevant_tomls_and_items", serves=["C04"], assumed=True,
          why="ancestor REUSE.toml files sorted outermost-first with their last matching table (sort key and lexical path "
              "relations are assumed; find_annotations_item is under contract)")
class FindRelevantTomlsAndItems:
    types = {"self": "NestedReuseTOML", "path": "Path", "return": "list[tuple[ReuseTOML, AnnotationsItem]]"}

    def post(self, path, result):
        return result == rel_items(self, path)


@contract("reuse.global_licensing.NestedReuseTOML.reuse_info_of", serves=["C04"])
class NestedInfoOf:
    types = {"self": "NestedReuseTOML", "path": "Path", "return": "dict[PrecedenceType, list[ReuseInfo]]"}
    ghost = {"v0": "str", "x0": "Expr", "e0": "ReuseInfo"}
    raises = {ValueError: None}     # lexical relative_to on a path that is not below the REUSE.toml (excluded by the finder)

    def post(self, path, result, C0, v0, x0, e0):
        clo = dget(result, PrecedenceType.CLOSEST)
        return (
            # copyright: exactly the lines of the nearest closest-table that has any, attributed to that table
            exists(lambda r: r in clo and v0 in r.copyright_lines and r.source_path == e0.source_path, "ReuseInfo")
            == (nearest_c(C0, e0) and v0 in e0.copyright_lines)
            # licensing: likewise, independently of copyright
            and exists(lambda r: r in clo and x0 in r.spdx_expressions and r.source_path == e0.source_path, "ReuseInfo")
            == (nearest_l(C0, e0) and x0 in e0.spdx_expressions)
            # an empty CLOSEST list is not left behind
            and implies(PrecedenceType.CLOSEST in result, len(clo) > 0))
