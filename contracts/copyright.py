"""Sidecar contracts for reuse.copyright and the year/notice plumbing of the annotate command (C20)."""
from pyvc.api import contract, spec, lemma, implies, forall, exists, ufun, in_lang, LoopSpec

import datetime
current_year = ufun("current_year", [], "int", native=lambda: datetime.date.today().year)


# "a statement that already is a notice": it contains a copyright tag followed by white space.  Written from the
# statement's list of tags (SPDX-FileCopyrightText / SPDX-SnippetCopyrightText / Copyright / the copyright sign),
# not from the three compiled patterns, whose search languages are compared with it by the contract below.
@spec
def is_notice(s):
    return in_lang(r"(?s).*(SPDX-FileCopyrightText:|SPDX-SnippetCopyrightText:|Copyright|©)\s.*", s)


PREFIX_TABLE = {
    "spdx": "SPDX-FileCopyrightText:",
    "spdx-c": "SPDX-FileCopyrightText: (C)",
    "spdx-string-c": "SPDX-FileCopyrightText: Copyright (C)",
    "spdx-string": "SPDX-FileCopyrightText: Copyright",
    "spdx-string-symbol": "SPDX-FileCopyrightText: Copyright ©",
    "spdx-symbol": "SPDX-FileCopyrightText: ©",
    "string": "Copyright",
    "string-c": "Copyright (C)",
    "string-symbol": "Copyright ©",
    "symbol": "©",
}


@spec
def prefix_text(p):
    return ("SPDX-FileCopyrightText:" if p == "spdx" else
            "SPDX-FileCopyrightText: (C)" if p == "spdx-c" else
            "SPDX-FileCopyrightText: Copyright (C)" if p == "spdx-string-c" else
            "SPDX-FileCopyrightText: Copyright" if p == "spdx-string" else
            "SPDX-FileCopyrightText: Copyright ©" if p == "spdx-string-symbol" else
            "SPDX-FileCopyrightText: ©" if p == "spdx-symbol" else
            "Copyright" if p == "string" else
            "Copyright (C)" if p == "string-c" else
            "Copyright ©" if p == "string-symbol" else
            "©")


@spec
def known_prefix(p):
    return (p == "spdx" or p == "spdx-c" or p == "spdx-string-c" or p == "spdx-string" or p == "spdx-string-symbol"
            or p == "spdx-symbol" or p == "string" or p == "string-c" or p == "string-symbol" or p == "symbol")


@contract("reuse.copyright.make_copyright_line", serves=["C20", "C07"])
class MakeCopyrightLine:
    types = {"statement": "str", "year": "Optional[str]", "copyright_prefix": "str", "return": "str"}
    pure = True
    raises_iff = {RuntimeError: lambda statement, copyright_prefix: "\n" in statement or not known_prefix(copyright_prefix)}

    def post(statement, year, copyright_prefix, result):
        return ((is_notice(statement) and result == statement)                      # kept verbatim
                or (not is_notice(statement) and year is None
                    and result == prefix_text(copyright_prefix) + " " + statement)
                or (not is_notice(statement) and year is not None
                    and result == prefix_text(copyright_prefix) + " " + year + " " + statement))


# every built line is itself a notice in the reader's sense (language level; the captured groups are compared by the
# bounded builder/reader check)
@lemma(types={"p": "str", "y": "str", "h": "str"}, serves=["C20"], name="built-line-is-notice")
def built_line_is_notice(p, y, h):
    return implies(known_prefix(p) and "\n" not in h and "\n" not in y,
                   is_notice(prefix_text(p) + " " + h) and is_notice(prefix_text(p) + " " + y + " " + h))


@spec
def year_single(y):
    return in_lang(r"\d{4}\n?", y)


@spec
def year_range(y):
    return in_lang(r"\d{4} ?- ?\d{4}\n?", y)


@contract("reuse.copyright._parse_copyright_year", serves=["C20"])
class ParseCopyrightYear:
    types = {"year": "Optional[str]", "return": "list[str]"}
    pure = True

    def post(year, result):
        return ((year is None or year == "" or (not year_single(year) and not year_range(year))) and len(result) == 0
                or year is not None and year_single(year) and len(result) == 1 and result[0] == year
                or year is not None and not year_single(year) and year_range(year) and len(result) == 2
                and result[0] == year[:4] and result[1] == year[-4:])


@contract("reuse.cli.annotate.get_year", serves=["C20"])
class GetYear:
    types = {"years": "list[str]", "exclude_year": "bool", "return": "Optional[str]"}

    def post(years, exclude_year, result):
        return ((exclude_year and result is None)
                or (not exclude_year and len(years) == 0 and result == str(current_year()))
                or (not exclude_year and len(years) == 1 and result == years[0])
                # several --year options: the range from the least to the greatest year given
                or (not exclude_year and len(years) > 1 and result == min(years) + " - " + max(years)))
