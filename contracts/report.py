"""Sidecar contracts for reuse.report and the identifier helpers of reuse._util (C01, C06, C13, C18)."""
from pyvc.api import contract, spec, lemma, implies, forall, exists, old, hide, reveal, use, LoopSpec
import reuse.report as _r


# ---- '+' helpers (C06) -------------------------------------------------------------------------------
@spec
def strip_plus(s: str) -> str:
    return s[:-1] if s.endswith("+") else s


@spec
def add_plus(s: str) -> str:
    return s if s.endswith("+") else s + "+"


@contract("reuse._util._strip_plus_from_identifier", serves=["C06"], inline=True)
class StripPlus:
    types = {"spdx_identifier": "str", "return": "str"}

    def post(spdx_identifier, result):
        return result == strip_plus(spdx_identifier)


@contract("reuse._util._add_plus_to_identifier", serves=["C06"], inline=True)
class AddPlus:
    types = {"spdx_identifier": "str", "return": "str"}

    def post(spdx_identifier, result):
        return result == add_plus(spdx_identifier)


# ---- spec views of a report (written from the statement, not from the bodies) -----------------------
@spec
def used_spec(r):
    return {lic for fr in r.file_reports for lic in fr.licenses_in_file}


@spec
def unused_spec(r):
    used = used_spec(r)
    return {lic for lic in r.licenses if lic not in used and add_plus(lic) not in used}


@spec
def no_licence_spec(r):
    return {fr.path for fr in r.file_reports if len(fr.licenses_in_file) == 0}


@spec
def no_copyright_spec(r):
    return {fr.path for fr in r.file_reports if fr.copyright == ""}


@spec
def compliant_spec(r):
    return not (r.missing_licenses or unused_spec(r) or r.bad_licenses or r.deprecated_licenses
                or r.licenses_without_extension or no_copyright_spec(r) or no_licence_spec(r) or r.read_errors)


@spec
def caches_ok(r):
    return ((r._used_licenses is None or r._used_licenses == used_spec(r))
            and (r._unused_licenses is None or r._unused_licenses == unused_spec(r))
            and (r._files_without_licenses is None or r._files_without_licenses == no_licence_spec(r))
            and (r._files_without_copyright is None or r._files_without_copyright == no_copyright_spec(r))
            and (r._is_compliant is None or r._is_compliant == compliant_spec(r)))


_CACHES = ["ProjectReport._used_licenses@self", "ProjectReport._unused_licenses@self", "ProjectReport._files_without_licenses@self",
           "ProjectReport._files_without_copyright@self", "ProjectReport._is_compliant@self"]


@spec
def frame_report(self):
    """The getters write nothing but their caches."""
    return (self.missing_licenses == old(self.missing_licenses) and self.bad_licenses == old(self.bad_licenses)
            and self.deprecated_licenses == old(self.deprecated_licenses) and self.read_errors == old(self.read_errors)
            and self.file_reports == old(self.file_reports) and self.licenses == old(self.licenses)
            and self.licenses_without_extension == old(self.licenses_without_extension))


@contract("reuse.report.ProjectReport.used_licenses", serves=["C06", "C01"])
class UsedLicenses:
    idempotent = True  # cached getter: a second call returns the cache, which equals the first result
    types = {"self": "ProjectReport", "return": "set[str]"}
    modifies = ["ProjectReport._used_licenses@self"]

    def pre(self):
        return caches_ok(self)

    def post(self, result):
        return result == used_spec(self) and caches_ok(self)


@contract("reuse.report.ProjectReport.unused_licenses", serves=["C06", "C01"])
class UnusedLicenses:
    idempotent = True  # cached getter: a second call returns the cache, which equals the first result
    types = {"self": "ProjectReport", "return": "set[str]"}
    modifies = ["ProjectReport._unused_licenses@self", "ProjectReport._used_licenses@self"]

    def pre(self):
        return caches_ok(self)

    def post(self, result):
        return result == unused_spec(self) and caches_ok(self)


@contract("reuse.report.ProjectReport.files_without_licenses", serves=["C01"])
class FilesWithoutLicenses:
    idempotent = True  # cached getter: a second call returns the cache, which equals the first result
    types = {"self": "ProjectReport", "return": "set[Path]"}
    modifies = ["ProjectReport._files_without_licenses@self"]

    def pre(self):
        return caches_ok(self)

    def post(self, result):
        return result == no_licence_spec(self) and caches_ok(self)


@contract("reuse.report.ProjectReport.files_without_copyright", serves=["C01"])
class FilesWithoutCopyright:
    idempotent = True  # cached getter: a second call returns the cache, which equals the first result
    types = {"self": "ProjectReport", "return": "set[Path]"}
    modifies = ["ProjectReport._files_without_copyright@self"]

    def pre(self):
        return caches_ok(self)

    def post(self, result):
        return result == no_copyright_spec(self) and caches_ok(self)


@contract("reuse.report.ProjectReport.is_compliant", serves=["C01", "C13"])
class IsCompliant:
    idempotent = True  # cached getter: a second call returns the cache, which equals the first result
    types = {"self": "ProjectReport", "return": "bool"}
    modifies = _CACHES

    def pre(self):
        return caches_ok(self)

    def post(self, result):
        # C01: compliant exactly when all eight issue collections are empty
        return result == compliant_spec(self) and caches_ok(self)


# ---- per-file results (ghost): what _generate_file_reports hands to the aggregation loops ----------------
from pyvc.api import ufun

results_of = ufun("results_of", ["Project", "bool", "bool"], "list[_MultiprocessingResult]")
subset_results_of = ufun("subset_results_of", ["Project", "set[Path]"], "list[_MultiprocessingResult]")


@spec
def wf_results(R):
    # type invariant of _MultiprocessingResult as built by _MultiprocessingContainer.__call__: error xor report
    return forall(lambda j: implies(0 <= j and j < len(R), (R[j].error is None) == (R[j].report is not None)), "int")


@contract("reuse.report._generate_file_reports", serves=["C01", "C13"], assumed=True,
          why="enumeration of covered files is C03's obligation, worker/serial equivalence C14's; here the result list is a "
              "ghost function of the project and its elements satisfy the NamedTuple invariant (error xor report)")
class GenerateFileReports:
    types = {"project": "Project", "do_checksum": "bool", "subset_files": "Optional[set[Path]]", "multiprocessing": "bool",
             "add_license_concluded": "bool", "return": "list[_MultiprocessingResult]"}

    def post(project, do_checksum, add_license_concluded, subset_files, result):
        return (implies(subset_files is None, result == results_of(project, do_checksum, add_license_concluded))
                and implies(subset_files is not None, result == subset_results_of(project, subset_files))
                and wf_results(result))


is_interrupt = ufun("is_interrupt", ["PyExc"], "bool")


@contract("reuse.report._process_error", serves=["C01", "C16"], assumed=True,
          why="re-raises only debugger-quit / KeyboardInterrupt (by design); otherwise logs")
class ProcessError:
    types = {"error": "PyExc", "path": "Path"}
    raises = {KeyboardInterrupt: lambda error: is_interrupt(error)}


@spec
def okj(R, j):
    return 0 <= j and j < len(R) and R[j].error is None


@spec
def errj(R, j):
    return 0 <= j and j < len(R) and R[j].error is not None


@spec
def errs_part(rep, R, n):
    return forall(lambda p: (p in rep.read_errors) == exists(lambda j: j < n and errj(R, j) and R[j].path == p, "int"), "Path")


@spec
def reports_part(rep, R, n):
    return forall(lambda fr: (fr in rep.file_reports) == exists(lambda j: j < n and okj(R, j) and R[j].report == fr, "int"), "FileReport")


@spec(opaque=True, reads=["FileReport.missing_licenses", "FileReport.path"])
def missing_from_files(R: "list[_MultiprocessingResult]", n: int, l: str, p: "Path") -> bool:
    return exists(lambda j: j < n and okj(R, j) and l in R[j].report.missing_licenses and R[j].report.path == p, "int")


@spec(opaque=True, reads=["FileReport.bad_licenses", "FileReport.path"])
def bad_from_files(R: "list[_MultiprocessingResult]", n: int, l: str, p: "Path") -> bool:
    return exists(lambda j: j < n and okj(R, j) and l in R[j].report.bad_licenses and R[j].report.path == p, "int")


@lemma(types={"R": "list[_MultiprocessingResult]", "n": "int", "l": "str", "p": "Path"}, serves=["C01"], name="missing-from-files-step")
def mff_step(R, n, l, p):
    return implies(reveal(missing_from_files(R, n, l, p)) and reveal(missing_from_files(R, n + 1, l, p)) and n >= 0,
                   missing_from_files(R, n + 1, l, p)
                   == (missing_from_files(R, n, l, p) or (okj(R, n) and l in R[n].report.missing_licenses and R[n].report.path == p)))


@lemma(types={"R": "list[_MultiprocessingResult]", "l": "str", "p": "Path"}, serves=["C01"], name="missing-from-files-base")
def mff_base(R, l, p):
    return implies(reveal(missing_from_files(R, 0, l, p)), not missing_from_files(R, 0, l, p))


@lemma(types={"R": "list[_MultiprocessingResult]", "n": "int", "l": "str", "p": "Path"}, serves=["C01"], name="bad-from-files-step")
def bff_step(R, n, l, p):
    return implies(reveal(bad_from_files(R, n, l, p)) and reveal(bad_from_files(R, n + 1, l, p)) and n >= 0,
                   bad_from_files(R, n + 1, l, p)
                   == (bad_from_files(R, n, l, p) or (okj(R, n) and l in R[n].report.bad_licenses and R[n].report.path == p)))


@lemma(types={"R": "list[_MultiprocessingResult]", "l": "str", "p": "Path"}, serves=["C01"], name="bad-from-files-base")
def bff_base(R, l, p):
    return implies(reveal(bad_from_files(R, 0, l, p)), not bad_from_files(R, 0, l, p))


@spec
def no_empty_values(d):
    # whole-view: a key is present only with a non-empty set (otherwise any(dict) would mis-report)
    return forall(lambda l: implies(l in d, bool(d[l])), "str")


@spec
def missing_part(rep, R, n):
    return (forall(lambda l, p: (l in rep.missing_licenses and p in rep.missing_licenses[l]) == missing_from_files(R, n, l, p), "str", "Path")
            and no_empty_values(rep.missing_licenses))


@spec
def bad_files_part(rep, R, n):
    return (forall(lambda l, p: (l in rep.bad_licenses and p in rep.bad_licenses[l]) == bad_from_files(R, n, l, p), "str", "Path")
            and no_empty_values(rep.bad_licenses))


@spec
def bad_from_licenses(project, keys, l, p):
    return l in keys and l in project.licenses and l not in project.license_map and project.licenses[l] == p


@spec
def deprecated_spec(project, keys):
    return {n for n in project.licenses if n in keys and n in project.license_map and project.license_map[n]["isDeprecatedLicenseId"]}


@spec
def copied(rep, project):
    return (rep.licenses == project.licenses and rep.licenses_without_extension == project.licenses_without_extension
            and rep.path == project.root
            and rep._used_licenses is None and rep._unused_licenses is None and rep._files_without_licenses is None
            and rep._files_without_copyright is None and rep._is_compliant is None)


@spec
def gen_core(project, R, result):
    """What ProjectReport.generate computes, written from the statement (design 4.1): whole-view postcondition."""
    n = len(R)
    keys = set(project.licenses)
    return (errs_part(result, R, n) and reports_part(result, R, n) and missing_part(result, R, n)
            and forall(lambda l, p: (l in result.bad_licenses and p in result.bad_licenses[l])
                       == (bad_from_files(R, n, l, p) or bad_from_licenses(project, keys, l, p)), "str", "Path")
            and no_empty_values(result.bad_licenses)
            and result.deprecated_licenses == deprecated_spec(project, keys)
            and result.licenses == project.licenses
            and result.licenses_without_extension == project.licenses_without_extension)


@contract("reuse.report.ProjectReport.generate", serves=["C01", "C06", "C13"])
class Generate:
    fresh_result = True
    types = {"project": "Project", "do_checksum": "bool", "multiprocessing": "bool", "add_license_concluded": "bool",
             "return": "ProjectReport"}
    raises = {KeyboardInterrupt: None}

    def post(project, do_checksum, add_license_concluded, result):
        return (gen_core(project, results_of(project, do_checksum, add_license_concluded), result)
                and wf_results(results_of(project, do_checksum, add_license_concluded))
                and copied(result, project))

    loops = {
        # for result in results
        0: LoopSpec(
            inv=lambda project_report, results, project, _i: (
                use(mff_step, results, _i) and use(bff_step, results, _i) and use(mff_base, results) and use(bff_base, results)
                and errs_part(project_report, results, _i) and reports_part(project_report, results, _i)
                and missing_part(project_report, results, _i) and bad_files_part(project_report, results, _i)
                and len(project_report.deprecated_licenses) == 0 and copied(project_report, project)),
            types={"file_report": "Optional[FileReport]"}),
        # for missing_license in file_report.missing_licenses
        1: LoopSpec(
            inv=lambda project_report, results, file_report, _i0, _done: (
                forall(lambda l, p: (l in project_report.missing_licenses and p in project_report.missing_licenses[l])
                       == (missing_from_files(results, _i0, l, p) or (l in _done and p == file_report.path)), "str", "Path")
                and no_empty_values(project_report.missing_licenses))),
        # for bad_license in file_report.bad_licenses
        2: LoopSpec(
            inv=lambda project_report, results, file_report, _i0, _done: (
                forall(lambda l, p: (l in project_report.bad_licenses and p in project_report.bad_licenses[l])
                       == (bad_from_files(results, _i0, l, p) or (l in _done and p == file_report.path)), "str", "Path")
                and no_empty_values(project_report.bad_licenses))),
        # for name, path in project.licenses.items()
        3: LoopSpec(
            inv=lambda project_report, results, project, _done: (
                forall(lambda l, p: (l in project_report.bad_licenses and p in project_report.bad_licenses[l])
                       == (bad_from_files(results, len(results), l, p) or bad_from_licenses(project, _done, l, p)), "str", "Path")
                and no_empty_values(project_report.bad_licenses)
                and project_report.deprecated_licenses == deprecated_spec(project, _done))),
    }


# ---- FileReport.generate (C01, C06, C18) -----------------------------------------------------------------------
infos_of = ufun("infos_of", ["Project", "Path"], "list[ReuseInfo]")
license_keys = ufun("license_keys", ["Expr"], "set[str]")
relative_of = ufun("relative_of", ["Path", "Path"], "Path")
sha1_of = ufun("sha1_of", ["Path"], "str")
md5hex = ufun("md5hex", ["str"], "str")


@contract("reuse.project.Project.reuse_info_of", serves=["C01", "C04"], assumed=True,
          why="the precedence logic is verified against the statement in C04; here its result is the ghost list infos_of(project, path)")
class ReuseInfoOfAssumed:
    types = {"self": "Project", "path": "Path", "return": "list[ReuseInfo]"}

    def post(self, path, result):
        return result == infos_of(self, path)


@contract("reuse.project.Project.relative_from_root", serves=["C01"], assumed=True,
          why="lexical relativisation (pathlib / os.path.relpath): a function of (root, path)")
class RelativeFromRoot:
    types = {"self": "Project", "path": "Path", "return": "Path"}

    def post(self, path, result):
        return result == relative_of(self.root, path)


@contract("reuse._util._checksum", serves=["C18"], assumed=True,
          why="SHA-1 of the file's bytes; the chunk loop is C18's obligation")
class ChecksumAssumed:
    types = {"path": "Path", "return": "str"}

    def post(path, result):
        return result == sha1_of(path)


@spec(opaque=True)
def keys_upto(infos: "list[ReuseInfo]", n: int, k: str) -> bool:
    """k is a licence/exception identifier of some expression of one of the first n infos"""
    return exists(lambda j, e: 0 <= j and j < n and j < len(infos) and e in infos[j].spdx_expressions and k in license_keys(e), "int", "Expr")


@lemma(types={"infos": "list[ReuseInfo]", "n": "int", "k": "str"}, serves=["C01", "C06"], name="keys-upto-step")
def keys_step(infos, n, k):
    return implies(reveal(keys_upto(infos, n, k)) and reveal(keys_upto(infos, n + 1, k)) and 0 <= n and n < len(infos),
                   keys_upto(infos, n + 1, k)
                   == (keys_upto(infos, n, k) or exists(lambda e: e in infos[n].spdx_expressions and k in license_keys(e), "Expr")))


@lemma(types={"infos": "list[ReuseInfo]", "k": "str"}, serves=["C01", "C06"], name="keys-upto-base")
def keys_base(infos, k):
    return implies(reveal(keys_upto(infos, 0, k)), not keys_upto(infos, 0, k))


@spec
def is_bad(project, k):
    # C06: bad iff neither the identifier nor its '+'-less form is on the licence/exception map
    return k not in project.license_map and strip_plus(k) not in project.license_map


@spec
def is_missing(project, k):
    # C06: missing iff no LICENSES/ file provides it, with or without the trailing '+'
    return k not in project.licenses and strip_plus(k) not in project.licenses


@spec
def classified(report, project, k):
    return ((k in report.bad_licenses) == (k in report.licenses_in_file and is_bad(project, k))
            and (k in report.missing_licenses) == (k in report.licenses_in_file and is_missing(project, k)))


@spec
def lines_nonempty(infos):
    return forall(lambda j, line: implies(0 <= j and j < len(infos) and line in infos[j].copyright_lines, line != ""), "int", "str")


@contract("reuse.report.FileReport.generate", serves=["C01", "C06", "C13", "C18"])
class FileReportGenerate:
    fresh_result = True
    raises = {Exception: None}      # anything the file system or the parsers raise; the worker callable contains it
    types = {"project": "Project", "path": "Path", "do_checksum": "bool", "add_license_concluded": "bool", "return": "FileReport"}
    raises_iff = {OSError: lambda path: not path.is_file()}
    # k0 is an arbitrary identifier: proving the pointwise statements for it proves them for every identifier;
    # at call sites the postcondition is universally quantified over k0.
    ghost = {"k0": "str"}

    def pre(project, path):
        # copyright lines are non-empty strings: proved for the extractor (C02: stripped regex captures of >= 1 char)
        return lines_nonempty(infos_of(project, path))

    def post(project, path, do_checksum, add_license_concluded, result, k0):
        infos = infos_of(project, path)
        return (result.path == path
                and (k0 in result.licenses_in_file) == keys_upto(infos, len(infos), k0)
                and classified(result, project, k0)
                and (result.copyright != "") == exists(lambda j, line: 0 <= j and j < len(infos) and line in infos[j].copyright_lines, "int", "str")
                and result.reuse_infos == infos
                and implies(do_checksum, result.chk_sum == sha1_of(path))
                # C18: the file is named relative to the root, its SPDXID is the MD5 of name and checksum
                and result.name == "./" + str(relative_of(project.root, path))
                and result.spdx_id == "SPDXRef-" + md5hex(result.name + result.chk_sum)
                and implies(not add_license_concluded, result.license_concluded == "NOASSERTION")
                and implies(add_license_concluded
                            and forall(lambda j: implies(0 <= j and j < len(infos), not infos[j].spdx_expressions), "int"),
                            result.license_concluded == "NONE"))

    loops = {
        0: LoopSpec(inv=lambda report, reuse_infos, project, _i, k0: (
            use(keys_step, reuse_infos, _i, k0) and use(keys_base, reuse_infos, k0)
            and (k0 in report.licenses_in_file) == keys_upto(reuse_infos, _i, k0)
            and classified(report, project, k0))),
        1: LoopSpec(inv=lambda report, reuse_infos, project, _i0, _done, k0: (
            (k0 in report.licenses_in_file)
            == (keys_upto(reuse_infos, _i0, k0) or exists(lambda e: e in _done and k0 in license_keys(e), "Expr"))
            and classified(report, project, k0))),
        2: LoopSpec(inv=lambda report, reuse_infos, project, expression, _i0, _done1, _i, _it, k0: (
            (k0 in report.licenses_in_file)
            == (keys_upto(reuse_infos, _i0, k0) or exists(lambda e: e in _done1 and k0 in license_keys(e), "Expr")
                or exists(lambda m: 0 <= m and m < _i and _it[m] == k0, "int"))
            and classified(report, project, k0)),
            types={"identifiers": "set[str]", "plus_identifier": "str"}),
    }


# ---- C01: the verdict, written from the statement's clauses (a)-(d) over the per-file results --------------------
@spec
def used_in_files(R, x):
    return exists(lambda j: okj(R, j) and x in R[j].report.licenses_in_file, "int")


@spec
def clause_a(R):
    # every covered file has at least one copyright notice and at least one licence expression
    return forall(lambda j: implies(okj(R, j), R[j].report.copyright != "" and len(R[j].report.licenses_in_file) > 0), "int")


@spec
def clause_b(R):
    # every identifier used is known (not bad) and has a text in LICENSES/ (not missing) -- per file, see FileReport.generate
    return forall(lambda j: implies(okj(R, j), not R[j].report.missing_licenses and not R[j].report.bad_licenses), "int")


@spec
def clause_c(project, R):
    # every LICENSES/ file: valid, non-deprecated, with extension, used by some covered file (as ID or ID+)
    return (forall(lambda l: implies(l in project.licenses,
                                     l in project.license_map and not project.license_map[l]["isDeprecatedLicenseId"]
                                     and (used_in_files(R, l) or used_in_files(R, add_plus(l)))), "str")
            and not project.licenses_without_extension)


@spec
def clause_d(R):
    # every covered file could be read
    return not exists(lambda j: errj(R, j), "int")


@spec
def verdict_spec(project, R):
    return clause_a(R) and clause_b(R) and clause_c(project, R) and clause_d(R)


@spec
def reveal_all(R):
    n = len(R)
    return (forall(lambda l, p: reveal(missing_from_files(R, n, l, p)), "str", "Path")
            and forall(lambda l, p: reveal(bad_from_files(R, n, l, p)), "str", "Path"))


@lemma(types={"project": "Project", "R": "list[_MultiprocessingResult]", "report": "ProjectReport"}, serves=["C01"], name="verdict-read-errors")
def verdict_errors(project, R, report):
    return implies(gen_core(project, R, report) and wf_results(R), (not report.read_errors) == clause_d(R))


@lemma(types={"project": "Project", "R": "list[_MultiprocessingResult]", "report": "ProjectReport"}, serves=["C01"], name="verdict-deprecated")
def verdict_deprecated(project, R, report):
    return implies(gen_core(project, R, report),
                   (not report.deprecated_licenses)
                   == forall(lambda l: implies(l in project.licenses and l in project.license_map,
                                               not project.license_map[l]["isDeprecatedLicenseId"]), "str"))


@lemma(types={"project": "Project", "R": "list[_MultiprocessingResult]", "report": "ProjectReport"}, serves=["C01"], name="verdict-no-info")
def verdict_noinfo(project, R, report):
    return implies(gen_core(project, R, report) and wf_results(R),
                   (not no_copyright_spec(report) and not no_licence_spec(report)) == clause_a(R))


_T3 = {"project": "Project", "R": "list[_MultiprocessingResult]", "report": "ProjectReport"}
_T5 = {"project": "Project", "R": "list[_MultiprocessingResult]", "report": "ProjectReport", "l": "str", "p": "Path"}
_T4J = {"project": "Project", "R": "list[_MultiprocessingResult]", "report": "ProjectReport", "j": "int", "k": "str"}


# ---- missing ----
@lemma(types=_T5, serves=["C01"], name="missing-pointwise-rl")
def missing_pw_rl(project, R, report, l, p):
    return implies(gen_core(project, R, report) and reveal(missing_from_files(R, len(R), l, p))
                   and forall(lambda j: implies(okj(R, j), not R[j].report.missing_licenses), "int"),
                   not (l in report.missing_licenses and p in report.missing_licenses[l]))


@lemma(types=_T4J, serves=["C01"], name="missing-pointwise-lr")
def missing_pw_lr(project, R, report, j, k):
    return implies(gen_core(project, R, report) and reveal(missing_from_files(R, len(R), k, R[j].report.path))
                   and okj(R, j) and k in R[j].report.missing_licenses,
                   k in report.missing_licenses)


@lemma(types=_T3, serves=["C01"], name="verdict-missing")
def verdict_missing(project, R, report):
    return implies(gen_core(project, R, report) and use(missing_pw_rl, project, R, report) and use(missing_pw_lr, project, R, report),
                   (not report.missing_licenses) == forall(lambda j: implies(okj(R, j), not R[j].report.missing_licenses), "int"))


# ---- bad ----
@lemma(types=_T5, serves=["C01"], name="bad-pointwise-rl")
def bad_pw_rl(project, R, report, l, p):
    return implies(gen_core(project, R, report) and reveal(bad_from_files(R, len(R), l, p))
                   and forall(lambda j: implies(okj(R, j), not R[j].report.bad_licenses), "int")
                   and forall(lambda x: implies(x in project.licenses, x in project.license_map), "str"),
                   not (l in report.bad_licenses and p in report.bad_licenses[l]))


@lemma(types=_T4J, serves=["C01"], name="bad-pointwise-lr-files")
def bad_pw_lr(project, R, report, j, k):
    return implies(gen_core(project, R, report) and reveal(bad_from_files(R, len(R), k, R[j].report.path))
                   and okj(R, j) and k in R[j].report.bad_licenses,
                   k in report.bad_licenses)


@lemma(types={"project": "Project", "R": "list[_MultiprocessingResult]", "report": "ProjectReport", "l": "str"}, serves=["C01"],
       name="bad-pointwise-lr-licenses")
def bad_pw_lr2(project, R, report, l):
    return implies(gen_core(project, R, report) and l in project.licenses and l not in project.license_map,
                   (l in report.bad_licenses and project.licenses[l] in report.bad_licenses[l]) == True)  # noqa: E712 (kept as one obligation)


@lemma(types=_T3, serves=["C01"], name="verdict-bad")
def verdict_bad(project, R, report):
    return implies(gen_core(project, R, report) and use(bad_pw_rl, project, R, report) and use(bad_pw_lr, project, R, report)
                   and use(bad_pw_lr2, project, R, report),
                   (not report.bad_licenses) == (forall(lambda j: implies(okj(R, j), not R[j].report.bad_licenses), "int")
                                                 and forall(lambda l: implies(l in project.licenses, l in project.license_map), "str")))


# ---- unused ----
@lemma(types={"project": "Project", "R": "list[_MultiprocessingResult]", "report": "ProjectReport", "x": "str"}, serves=["C01", "C06"],
       name="used-pointwise")
def used_pw(project, R, report, x):
    return implies(gen_core(project, R, report) and wf_results(R), (x in used_spec(report)) == used_in_files(R, x))


@lemma(types=_T3, serves=["C01", "C06"], name="verdict-unused")
def verdict_unused(project, R, report):
    return implies(gen_core(project, R, report) and wf_results(R) and use(used_pw, project, R, report),
                   (not unused_spec(report))
                   == forall(lambda l: implies(l in project.licenses, used_in_files(R, l) or used_in_files(R, add_plus(l))), "str"))


@lemma(types=_T3, serves=["C01"], name="verdict")
def verdict(project, R, report):
    """C01: compliant exactly when clauses (a)-(d) hold -- composition of the category lemmas."""
    return implies(gen_core(project, R, report) and wf_results(R)
                   and use(verdict_missing, project, R, report) and use(verdict_bad, project, R, report)
                   and use(verdict_errors, project, R, report) and use(verdict_deprecated, project, R, report)
                   and use(verdict_noinfo, project, R, report) and use(verdict_unused, project, R, report),
                   compliant_spec(report) == verdict_spec(project, R))


# ---- C06: cross-consistency of the classification (lemmas over the spec functions only) ------------------------------
@lemma(types={"x": "str"}, serves=["C06"], name="strip-add-plus")
def plus_lemma(x):
    return (strip_plus(add_plus(x)) == strip_plus(x)
            and implies(not strip_plus(x).endswith("+"), x == strip_plus(x) or x == add_plus(strip_plus(x)))
            and implies(not x.endswith("+"), strip_plus(x) == x and add_plus(x) == x + "+" and strip_plus(add_plus(x)) == x))


@lemma(types={"used": "set[str]", "provided": "set[str]", "k": "str"}, serves=["C06"], name="missing-vs-unused-consistent")
def c06_consistent(used, provided, k):
    """A used identifier k whose '+'-less form l is provided (l a well-formed identifier, i.e. not itself ending in '+')
    is not missing, and l is not unused -- the two classifications never contradict each other."""
    l = strip_plus(k)
    missing_k = k not in provided and strip_plus(k) not in provided
    unused_l = l in provided and l not in used and add_plus(l) not in used
    return implies(k in used and l in provided and not l.endswith("+"), not missing_k and not unused_l)


@lemma(types={"used": "set[str]", "provided": "set[str]", "k": "str"}, serves=["C06"], name="missing-means-not-provided")
def c06_missing(used, provided, k):
    missing_k = k not in provided and strip_plus(k) not in provided
    return implies(missing_k, forall(lambda l: implies(l in provided, l != k and l != strip_plus(k)), "str"))


@lemma(types={"used": "set[str]", "provided": "set[str]", "l": "str"}, serves=["C06"], name="unused-means-not-used")
def c06_unused(used, provided, l):
    unused_l = l in provided and l not in used and add_plus(l) not in used
    return implies(unused_l, forall(lambda k: implies(k in used, k != l and k != add_plus(l)), "str"))


# ---- C06: "bad iff neither on the SPDX licence/exception lists nor a LicenseRef-" --------------------------------------
from pyvc.api import in_lang
spdx_ids = ufun("spdx_ids", [], "set[str]")


@spec
def is_licenseref_id(s):
    return in_lang(r"LicenseRef-[a-zA-Z0-9\-.]+", s)


@spec
def license_map_invariant(project):
    """How Project builds license_map (LICENSE_MAP + EXCEPTION_MAP, plus the LicenseRef- files found in LICENSES/ whose
    name does not contain 'Unknown'): established by Project._default_license_map / _find_licenses (assumed here)."""
    return forall(lambda k: (k in project.license_map)
                  == (k in spdx_ids() or (is_licenseref_id(k) and "Unknown" not in k and k in project.licenses)), "str")


@lemma(types={"project": "Project", "k": "str"}, serves=["C06"], name="bad-iff-neither-spdx-nor-licenseref")
def c06_bad(project, k):
    statement_bad = not (k in spdx_ids() or strip_plus(k) in spdx_ids() or is_licenseref_id(k))
    return implies(license_map_invariant(project), is_bad(project, k) == statement_bad)


def kf_licenseref_bad(k):
    """known finding: a LicenseRef- identifier without a registered LICENSES/ file (or containing 'Unknown') is classed bad"""
    return is_licenseref_id(k) or is_licenseref_id(strip_plus(k))


# ---- C13: the subset report behind `reuse lint-file` --------------------------------------------------------------------
@spec
def subset_no_licence(r):
    return {fr.path for fr in r.file_reports if len(fr.licenses_in_file) == 0}


@spec
def subset_no_copyright(r):
    return {fr.path for fr in r.file_reports if fr.copyright == ""}


@spec
def subset_reports_anything(r):
    """format_lines_subset prints one line per (licence, file) of missing_licenses, per read error, per file without
    licence and per file without copyright: something is reported iff one of the four collections is non-empty"""
    return bool(r.missing_licenses) or bool(r.read_errors) or bool(subset_no_licence(r)) or bool(subset_no_copyright(r))


@contract("reuse.report.ProjectSubsetReport.files_without_licenses", serves=["C13"])
class SubsetFilesWithoutLicenses:
    types = {"self": "ProjectSubsetReport", "return": "set[Path]"}

    def post(self, result):
        return result == subset_no_licence(self)


@contract("reuse.report.ProjectSubsetReport.files_without_copyright", serves=["C13"])
class SubsetFilesWithoutCopyright:
    types = {"self": "ProjectSubsetReport", "return": "set[Path]"}

    def post(self, result):
        return result == subset_no_copyright(self)


@contract("reuse.report.ProjectSubsetReport.is_compliant", serves=["C13"])
class SubsetIsCompliant:
    types = {"self": "ProjectSubsetReport", "return": "bool"}

    def post(self, result):
        # C13: lint-file exits 1 iff it reported any problem
        return result == (not subset_reports_anything(self))


@contract("reuse.report.ProjectSubsetReport.generate", serves=["C13"])
class SubsetGenerate:
    fresh_result = True
    types = {"project": "Project", "subset_files": "set[Path]", "multiprocessing": "bool", "return": "ProjectSubsetReport"}
    raises = {KeyboardInterrupt: None}

    def post(project, subset_files, result):
        R = subset_results_of(project, subset_files)
        # the same aggregation as `reuse lint`, restricted to the per-file categories
        return errs_part(result, R, len(R)) and reports_part(result, R, len(R)) and missing_part(result, R, len(R)) and wf_results(R)

    loops = {
        0: LoopSpec(
            inv=lambda subset_report, results, _i: (
                use(mff_step, results, _i) and use(mff_base, results)
                and errs_part(subset_report, results, _i) and reports_part(subset_report, results, _i)
                and missing_part(subset_report, results, _i)),
            types={"file_report": "Optional[FileReport]"}),
        1: LoopSpec(
            inv=lambda subset_report, results, file_report, _i0, _done: (
                forall(lambda l, p: (l in subset_report.missing_licenses and p in subset_report.missing_licenses[l])
                       == (missing_from_files(results, _i0, l, p) or (l in _done and p == file_report.path)), "str", "Path")
                and no_empty_values(subset_report.missing_licenses))),
    }


# ---- C18: creator field, identifier uniqueness ---------------------------------------------------------------------
@contract("reuse.report.format_creator", serves=["C18"])
class FormatCreator:
    types = {"creator": "Optional[str]", "return": "str"}
    pure = True

    def post(creator, result):
        # "Name (email)" is kept; a bare name gets the empty e-mail part; no creator is "Anonymous ()"
        return ((creator is None and result == "Anonymous ()")
                or (creator is not None and "(" in creator and creator.endswith(")") and result == creator)
                or (creator is not None and not ("(" in creator and creator.endswith(")")) and result == creator + " ()"))


@lemma(types={"fa": "FileReport", "fb": "FileReport"}, serves=["C18"], name="spdx-ids-unique-per-name")
def spdx_ids_unique(fa, fb):
    # with MD5 collision-free on the inputs at hand (assumption, stated), two reports with the identifier shape proved for
    # FileReport.generate and different (name, checksum) texts have different SPDXIDs
    return implies(forall(lambda x, y: implies(md5hex(x) == md5hex(y), x == y), "str", "str")
                   and fa.spdx_id == "SPDXRef-" + md5hex(fa.name + fa.chk_sum)
                   and fb.spdx_id == "SPDXRef-" + md5hex(fb.name + fb.chk_sum)
                   and fa.name + fa.chk_sum != fb.name + fb.chk_sum,
                   fa.spdx_id != fb.spdx_id)
