"""Sidecar contracts for the command callbacks (reuse.cli.*)."""
from pyvc.api import contract, spec, lemma, implies, forall, exists, old, hide, reveal, use, ufun, LoopSpec
import click
from contracts.report import (results_of, compliant_spec, Generate, okj, errj, add_plus, strip_plus, caches_ok, frame_report)

project_of = ufun("project_of", ["ClickObj"], "Project")
path_join = ufun("path_join", ["Path", "Path"], "Path")
path_of_str = ufun("path_of_str", ["str"], "Path")


@contract("reuse.cli.common.ClickObj.project", serves=["C01", "C16"], assumed=True,
          why="project discovery and configuration parsing are C16's obligations (raises only click.UsageError); here the "
              "project is a ghost function of the click object")
class ClickObjProject:
    types = {"self": "ClickObj", "return": "Project"}
    raises = {click.UsageError: None}
    modifies = ["ClickObj._project@self"]
    idempotent = True

    def post(self, result):
        # (Project.from_directory: when .reuse/dep5 exists it is the project's global licensing object)
        return result == project_of(self) and implies(
            path_join(result.root, path_of_str(".reuse/dep5")).exists(), result.global_licensing is not None)


fmt_json = ufun("fmt_json", ["ProjectReport"], "str")
fmt_lines = ufun("fmt_lines", ["ProjectReport"], "str")
fmt_plain = ufun("fmt_plain", ["ProjectReport"], "str")

_CACHES = ["ProjectReport._used_licenses@report", "ProjectReport._unused_licenses@report", "ProjectReport._files_without_licenses@report",
           "ProjectReport._files_without_copyright@report", "ProjectReport._is_compliant@report"]


def _fmt_contract(name, uf):
    @contract(f"reuse.lint.{name}", serves=["C01", "C13"], assumed=True,
              why="formatter content is C13's obligation; for the verdict only its frame matters: it reads the report "
                  "(filling caches) and returns a string")
    class _F:
        types = {"report": "ProjectReport", "return": "str"}
        modifies = _CACHES

        def pre(report):
            return caches_ok(report)

        def post(report, result):
            return caches_ok(report)
    return _F


_fmt_contract("format_json", fmt_json)
_fmt_contract("format_lines", fmt_lines)
_fmt_contract("format_plain", fmt_plain)


from contracts.report import verdict, verdict_spec


@contract("reuse.cli.lint.lint", serves=["C01", "C13"])
class Lint:
    types = {"obj": "ClickObj", "quiet": "bool", "json": "bool", "plain": "bool", "lines": "bool"}
    raises = {SystemExit: None, click.UsageError: None, KeyboardInterrupt: None}
    modifies = ["ClickObj._project@obj"]

    # C01: whatever output branch is taken, the exit status is 0 exactly when clauses (a)-(d) hold for the
    # per-file results of the project (1 otherwise); SystemExit is the only normal way out.
    exc_post = {SystemExit: lambda obj, report, exc_code: (
        use(verdict, project_of(obj), results_of(project_of(obj), False, False), report)
        and (exc_code == 0) == verdict_spec(project_of(obj), results_of(project_of(obj), False, False))
        and (exc_code == 0 or exc_code == 1))}

    def post(obj):
        return False   # the command never returns normally: it always exits through sys.exit


# ---- lint-file ---------------------------------------------------------------------------------------------------------
from contracts.report import subset_reports_anything

fmt_lines_subset = ufun("fmt_lines_subset", ["ProjectSubsetReport"], "str")


@contract("reuse.lint.format_lines_subset", serves=["C13"], assumed=True,
          why="content of the lines is checked by the bounded formatter-agreement check; here only its frame: it reads the report")
class FormatLinesSubset:
    types = {"report": "ProjectSubsetReport", "return": "str"}


@contract("reuse.cli.lint_file.lint_file", serves=["C13"])
class LintFile:
    types = {"obj": "ClickObj", "quiet": "bool", "lines": "bool", "files": "set[Path]"}
    raises = {SystemExit: None, click.UsageError: None, KeyboardInterrupt: None}
    modifies = ["ClickObj._project@obj"]

    # C13: lint-file exits 1 iff it reported any problem (0 otherwise), whichever output option is chosen
    exc_post = {SystemExit: lambda obj, report, exc_code: (
        (exc_code == 0) == (not subset_reports_anything(report)) and (exc_code == 0 or exc_code == 1))}

    def post(obj):
        return False

    loops = {0: LoopSpec(inv=lambda subset_files: True)}


# ---- spdx (C15: writes only to -o FILE or stdout) -------------------------------------------------------------------------
@contract("reuse.report.ProjectReport.bill_of_materials", serves=["C15", "C18"], assumed=True,
          why="text generation from the report (its content is C18's obligation); reads LicenseRef- texts, writes nothing")
class BillOfMaterialsFrame:
    types = {"self": "ProjectReport", "creator_person": "Optional[str]", "creator_organization": "Optional[str]", "return": "str"}
