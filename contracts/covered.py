"""Sidecar contracts for reuse.covered_files (C03, C13)."""
from pyvc.api import contract, spec, lemma, implies, forall, exists, in_lang, ufun, LoopSpec

# ---- the statement's name languages (written from the property text, not from the pattern lists) ----------------
SPEC_FILE_NAME = (r"(LICENSE|LICENCE|COPYING)([-.].*)?"          # LICENSE, LICENCE, COPYING (+ '-' or '.' suffix)
                  r"|.*\.license"                                # *.license
                  r"|.*\.spdx(\.(rdf|json|xml|ya?ml))?"          # SPDX documents
                  r"|REUSE\.toml")
SPEC_DIR_LOWER = r"LICENSES|\.reuse|\.git|\.hg"                  # must be excluded
SPEC_DIR_UPPER = r"LICENSES|\.reuse|\.git|\.hg|\.sl|\.jj|\.pijul|\.svn|\.bzr|_darcs|CVS"   # may be excluded (VCS metadata)

stat_fails = ufun("fs_stat_fails", ["Path"], "bool")


@spec
def file_name_excluded(name, include_reuse_tomls):
    return in_lang(SPEC_FILE_NAME, name) and not (include_reuse_tomls and name == "REUSE.toml")


@spec
def in_subset(path, subset_files):
    return subset_files is None or path.resolve() in subset_files


@spec
def dir_in_subset(path, subset_files):
    return subset_files is None or exists(lambda f: f in subset_files and f.is_relative_to(path.resolve()), "Path")


@spec
def parent_name(path):
    parts = path.parent.parts
    return parts[-1] if len(parts) > 0 else ""


@spec
def vcs_says(vcs_strategy, path):
    return vcs_strategy is not None and vcs_strategy.is_ignored(path)


@spec
def common_part(path, subset_files, include_submodules, include_meson_subprojects, include_reuse_tomls, vcs_strategy):
    """everything except the directory-name clause, which the statement leaves as a sandwich"""
    return (path.is_symlink()
            or (path.is_file() and (not in_subset(path, subset_files)
                                    or file_name_excluded(path.name, include_reuse_tomls)
                                    or (not stat_fails(path) and path.stat().st_size == 0)))
            or (not path.is_file() and path.is_dir()
                and (not dir_in_subset(path, subset_files)
                     or (not include_meson_subprojects and in_lang(r"subprojects", parent_name(path)))
                     or (not include_submodules and vcs_strategy is not None and vcs_strategy.is_submodule(path))))
            or vcs_says(vcs_strategy, path))


@contract("reuse.covered_files.is_path_ignored", serves=["C03", "C13"])
class IsPathIgnored:
    types = {"path": "Path", "subset_files": "Optional[set[Path]]", "include_submodules": "bool",
             "include_meson_subprojects": "bool", "include_reuse_tomls": "bool", "vcs_strategy": "Optional[VCS]",
             "return": "bool"}
    observe = {"name": lambda path: path.name,
               "parent_name": lambda path: parent_name(path),
               "is_symlink": lambda path: path.is_symlink(),
               "is_file": lambda path: path.is_file(),
               "is_dir": lambda path: path.is_dir(),
               "stat_fails": lambda path: stat_fails(path),
               "size": lambda path: path.stat().st_size}

    def pre(path):
        # weakest precondition: names free of newline characters ('$' also matches before a final newline and '.'
        # does not match one, so a name such as 'COPYING\n' is treated like 'COPYING'): reported, not assumed silently
        return "\n" not in path.name and "\n" not in parent_name(path)

    def post(path, subset_files, include_submodules, include_meson_subprojects, include_reuse_tomls, vcs_strategy, result):
        base = common_part(path, subset_files, include_submodules, include_meson_subprojects, include_reuse_tomls, vcs_strategy)
        isdir = not path.is_symlink() and not path.is_file() and path.is_dir()
        return (implies(base or (isdir and in_lang(SPEC_DIR_LOWER, path.name)), result)
                and implies(result, base or (isdir and in_lang(SPEC_DIR_UPPER, path.name))))


# ---- known-finding classes (relativisation predicates over observer values) -------------------------------------
def kf_vcs_metadata_files(name):
    """'.git' as a *file* (submodule gitlink) and '.hgtags' are skipped although the statement lists only VCS metadata
    directories"""
    return in_lang(r"\.git|\.hgtags", name)


def kf_cal_shl_workaround(name):
    """upstream workaround for issue 229: file names starting like the CAL-1.0 / SHL-2.1 licence texts are skipped"""
    return in_lang(r"CAL-1.0(-Combined-Work-Exception)?(\..+)?|SHL-2.1(\..+)?", name)


def kf_known_names(name):
    return kf_vcs_metadata_files(name) or kf_cal_shl_workaround(name)


# ---- Git strategy: lookups in the two answer sets built at construction (C03) ---------------------------------------
relative_of = ufun("relative_of", ["Path", "Path"], "Path")


@contract("reuse._util.relative_from_root", serves=["C03", "C14"], assumed=True,
          why="lexical relativisation (PurePath.relative_to, else os.path.relpath): a function of (root, path)")
class RelativeFromRootUtil:
    pure = True
    types = {"path": "Path", "root": "Path", "return": "Path"}

    def post(path, root, result):
        return result == relative_of(root, path)


@contract("reuse.vcs.VCSStrategyGit.is_submodule", serves=["C03"])
class GitIsSubmodule:
    types = {"self": "VCSStrategyGit", "path": "Path", "return": "bool"}

    def post(self, path, result):
        # a directory is skipped as a submodule exactly when it IS one of the registered submodule roots
        # (not an ancestor, not a descendant)
        return result == exists(lambda sm: sm in self._submodules
                                and relative_of(self.root, path).resolve() == sm.resolve(), "Path")


@contract("reuse.vcs.VCSStrategyGit.is_ignored", serves=["C03"])
class GitIsIgnored:
    types = {"self": "VCSStrategyGit", "path": "Path", "return": "bool"}

    def post(self, path, result):
        # Git's answer set is consulted with the path relative to the repository root
        return result == (relative_of(self.root, path) in self._all_ignored_files)
