"""Sidecar contracts for configuration loading and per-file error containment (C16)."""
import click
import tomlkit
from pyvc.api import contract, spec, lemma, implies, forall, exists, ufun, LoopSpec
from reuse.exceptions import GlobalLicensingParseError, GlobalLicensingConflictError
from contracts.report import lines_nonempty, infos_of


@contract("reuse.global_licensing.ReuseTOML.from_dict", serves=["C16"], assumed=True,
          why="decided exhaustively (finite): every key x every TOML type through the real from_toml (bounded check "
              "'toml-shapes'); here: only GlobalLicensingParseError escapes")
class FromDict:
    types = {"values": "TomlDict", "source": "str", "return": "ReuseTOML"}
    raises = {GlobalLicensingParseError: None}


@contract("reuse.global_licensing.ReuseTOML.from_toml", serves=["C16"])
class FromToml:
    types = {"toml": "str", "source": "str", "return": "ReuseTOML"}
    # syntactically broken TOML and ill-typed content both surface as the configuration error that names the file
    raises = {GlobalLicensingParseError: None}


@contract("reuse.global_licensing.ReuseTOML.from_file", serves=["C16"])
class FromFile:
    types = {"path": "Path", "return": "ReuseTOML"}
    # invalid UTF-8 is mapped to the configuration error; I/O errors propagate as OSError (mapped by ClickObj.project)
    raises = {GlobalLicensingParseError: None, OSError: None}


@contract("reuse.global_licensing.ReuseDep5.from_file", serves=["C16"])
class Dep5FromFile:
    types = {"path": "Path", "return": "ReuseDep5"}
    # invalid UTF-8 and python-debian's parse errors are mapped to the configuration error naming the file
    raises = {GlobalLicensingParseError: None, OSError: None}


@contract("reuse.project.Project.from_directory", serves=["C16"], assumed=True,
          why="raise set taken from its docstring and body: root checks raise FileNotFoundError / NotADirectoryError, "
              "configuration loading raises GlobalLicensingParseError / GlobalLicensingConflictError / OSError")
class FromDirectory:
    types = {"root": "Path", "include_submodules": "bool", "include_meson_subprojects": "bool", "return": "Project"}
    fresh_result = True
    raises = {GlobalLicensingParseError: None, GlobalLicensingConflictError: None, OSError: None}


@contract("reuse.cli.common.ClickObj.project", serves=["C16"])
class ClickObjProjectVerified:
    types = {"self": "ClickObj", "return": "Project"}
    modifies = ["ClickObj._project@self"]
    idempotent = True
    # C16: a broken configuration ends in a usage error (exit status 2, message naming the file), never a traceback
    raises = {click.UsageError: None}


@contract("reuse.report._MultiprocessingContainer.__call__", serves=["C16", "C01"])
class WorkerCall:
    types = {"self": "_MultiprocessingContainer", "file_": "Path", "return": "_MultiprocessingResult"}
    modifies = ["_MultiprocessingContainer.reuse_dep5@self", "Project.global_licensing"]

    def pre(self, file_):
        # precondition of FileReport.generate, handed through: copyright lines are non-empty strings
        # (extractor: C02; an empty string in REUSE.toml is the documented exception, see DESIGN section 5)
        return lines_nonempty(infos_of(self.project, file_))

    def post(self, file_, result):
        # a covered file that cannot be processed becomes a result carrying the error: nothing escapes the worker,
        # and every result holds either a report or an error (the invariant ProjectReport.generate relies on)
        return (result.error is None) == (result.report is not None) and result.path == file_
