"""Sidecar contracts for reuse.header and the line-ending helper (C07, C08, C09, C10)."""
import os
from boolean.boolean import ParseError
from license_expression import ExpressionError
from pyvc.api import contract, spec, lemma, implies, forall, exists, old, ufun, in_lang, LoopSpec
from reuse.exceptions import CommentCreateError, MissingReuseInfoError

# the reader, as a ghost function of the text (its regular expressions are C02's obligation)
extracted = ufun("extracted", ["str"], "ReuseInfo")
unparseable = ufun("unparseable", ["str"], "bool")
merged = ufun("merged", ["set[str]"], "set[str]")
# the writer's two abstract stages: the template (any function of the three sorted sequences) and the comment style
rendered = ufun("rendered", ["Template", "list[str]", "list[str]", "list[str]"], "str")
commented = ufun("commented", ["Style", "str", "bool"], "str")
comment_fails = ufun("comment_fails", ["Style", "str", "bool"], "bool")
expr_text = ufun("expr_text", ["Expr"], "str")
default_template = ufun("default_template", [], "Template")
python_style = ufun("style_const_PythonCommentStyle", [], "Style")


@contract("reuse.extract.extract_reuse_info", serves=["C07", "C09", "C10"], assumed=True,
          why="the reader is a function of the text; its patterns are exercised by C02 / C20; raises on an unparseable expression")
class ExtractReuseInfo:
    types = {"text": "str", "return": "ReuseInfo"}
    pure = True
    raises_iff = {ExpressionError: lambda text: unparseable(text)}

    def post(text, result):
        return result == extracted(text)


@contract("reuse.copyright.merge_copyright_lines", serves=["C09"], assumed=True,
          why="a function of the set of lines (bounded merge check of C20 / C09)")
class MergeCopyrightLines:
    types = {"copyright_lines": "set[str]", "return": "set[str]"}
    pure = True

    def post(copyright_lines, result):
        return result == merged(copyright_lines)


@contract("reuse.extract.detect_line_endings", serves=["C08", "C11"])
class DetectLineEndings:
    types = {"text": "str", "return": "str"}
    pure = True

    def post(text, result):
        # the convention of the file: CRLF if it occurs at all, else CR, else LF, else the platform's
        return (("\r\n" in text and result == "\r\n")
                or ("\r\n" not in text and "\r" in text and result == "\r")
                or ("\r" not in text and "\n" in text and result == "\n")
                or ("\r" not in text and "\n" not in text and result == os.linesep))


@spec
def blank(s):
    return s.strip() == ""


@contract("reuse.header.place_header", serves=["C08", "C10"])
class PlaceHeader:
    types = {"header": "str", "before": "str", "after": "str", "has_existing_header": "bool", "return": "str"}
    pure = True

    def post(header, before, after, has_existing_header, result):
        # C08: what precedes the header is kept up to its trailing white space, what follows is kept byte for byte; only
        # blank lines directly adjacent to the header are added or dropped.  C10: with an existing header no blank line is added.
        head = "" if blank(before) else before.rstrip() + "\n\n"
        sep = "\n" if (not has_existing_header and not after.startswith("\n")) else ""
        tail = "" if blank(after) else sep + after
        return result == head + header + "\n" + tail


@spec
def header_text(c, k, l, t, is_commented, st, force_multi):
    """the header as a function of the three SETS, the template, the style and the flags (C10: no dependence on order)"""
    body = rendered(t, sorted(c), sorted(k), sorted(map(str, l))).strip("\n")
    return body if is_commented else commented(st, body, force_multi).strip("\n")


@contract("reuse.header._create_new_header", serves=["C07", "C10", "C09"])
class CreateNewHeader:
    types = {"reuse_info": "ReuseInfo", "template": "Optional[Template]", "template_is_commented": "bool",
             "style": "Optional[Style]", "force_multi": "bool", "return": "str"}
    raises = {CommentCreateError: None, MissingReuseInfoError: None, ExpressionError: None}

    def post(reuse_info, template, template_is_commented, style, force_multi, result):
        t = default_template() if template is None else template
        st = python_style() if style is None else style
        return (
            # C07: a header is only returned if the reader finds exactly the requested notices and expressions in it
            extracted(result).copyright_lines == reuse_info.copyright_lines
            and set(map(str, extracted(result).spdx_expressions)) == set(map(str, reuse_info.spdx_expressions))
            # C10 / C09: the text is a function of the sets (sorted), the template and the style
            and result == header_text(reuse_info.copyright_lines, reuse_info.contributor_lines, reuse_info.spdx_expressions,
                                      t, template_is_commented, st, force_multi))


@contract("reuse.header.create_header", serves=["C09", "C07"])
class CreateHeader:
    types = {"reuse_info": "ReuseInfo", "header": "Optional[str]", "template": "Optional[Template]", "template_is_commented": "bool",
             "style": "Optional[Style]", "force_multi": "bool", "merge_copyrights": "bool", "return": "str"}
    raises = {CommentCreateError: None, MissingReuseInfoError: None, ExpressionError: None}

    def post(reuse_info, header, template, template_is_commented, style, force_multi, merge_copyrights, result):
        t = default_template() if template is None else template
        st = python_style() if style is None else style
        fresh = header is None or header == ""
        ext = extracted(header)
        lines = reuse_info.copyright_lines | ext.copyright_lines
        # C09: the new header declares everything the old one declared and everything requested (notices, expressions,
        # contributors); with --merge-copyrights the notices go through the merge function
        # (--merge-copyrights applies to the very first header as well: each holder gets a single line from the start, and a
        # second identical run finds nothing left to merge - C10)
        all_lines = reuse_info.copyright_lines if fresh else lines
        want_c = merged(all_lines) if merge_copyrights else all_lines
        want_l = reuse_info.spdx_expressions if fresh else ext.spdx_expressions | reuse_info.spdx_expressions
        want_k = reuse_info.contributor_lines if fresh else ext.contributor_lines | reuse_info.contributor_lines
        return (result == header_text(want_c, want_k, want_l, t, template_is_commented, st, force_multi)
                and extracted(result).copyright_lines == want_c
                and set(map(str, extracted(result).spdx_expressions)) == set(map(str, want_l)))


line_starts = ufun("line_starts", ["str"], "list[int]")
comment_at = ufun("comment_at", ["Style", "str"], "str")          # what the style's comment finder returns (domain model)


@contract("reuse.header._indices_of_newlines", serves=["C08"], assumed=True,
          why="start offsets of the lines of the text (a while loop around a compiled pattern's search(text, pos))")
class IndicesOfNewlines:
    types = {"text": "str", "return": "list[int]"}
    pure = True

    def post(text, result):
        return (result == line_starts(text)
                and forall(lambda j: implies(0 <= j and j < len(result), 0 <= result[j] and result[j] <= len(text)), "int"))


@contract("reuse.extract.contains_reuse_info", serves=["C08", "C10", "C11"], assumed=True, why="pure function of the text (C02)")
class ContainsReuseInfo:
    types = {"text": "str", "return": "bool"}
    pure = True


@contract("reuse.header._find_first_spdx_comment", serves=["C08"])
class FindFirstSpdxComment:
    types = {"text": "str", "style": "Optional[Style]", "return": "_TextSections"}
    raises = {MissingReuseInfoError: None}

    def post(text, style, result):
        # C08: the three sections are a partition of the text - nothing is dropped, duplicated or reordered (when the block
        # is the very end of a text without final newline, the middle section carries the newline the text lacks)
        whole = result.before + result.middle + result.after
        st = python_style() if style is None else style
        return ((whole == text or whole == text + "\n") and result.middle.endswith("\n") and text.startswith(result.before)
                # ... and the cut is where the block was found: at the start of a line, and the middle section is the block
                # the style's comment finder returns there (not some other occurrence of the same text)
                and exists(lambda j: 0 <= j and j < len(line_starts(text)) and line_starts(text)[j] == len(result.before)
                           and result.middle == comment_at(st, text[line_starts(text)[j]:]) + "\n", "int"))

    loops = {0: LoopSpec(inv=lambda text: True)}
