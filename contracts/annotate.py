"""Sidecar contracts for the annotate path and convert-dep5 (C11, C15, C17)."""
import click
from pyvc.api import contract, spec, lemma, implies, forall, exists, old, ufun, LoopSpec
from reuse.exceptions import CommentCreateError, MissingReuseInfoError

license_suffix = ufun("license_suffix", ["Path"], "Path")       # FILE.license
new_text = ufun("new_text", ["str", "Optional[Style]", "bool"], "str")


@contract("reuse._util._determine_license_suffix_path", serves=["C11", "C15"], assumed=True,
          why="FILE -> FILE.license (FILE.license -> itself): pathlib suffix arithmetic")
class DetermineLicenseSuffixPath:
    types = {"path": "Path", "return": "Path"}
    pure = True

    def post(path, result):
        # FILE -> FILE.license, and FILE.license -> itself
        return result == license_suffix(path) and license_suffix(result) == result


@contract("reuse.comment.get_comment_style", serves=["C11", "C15"], assumed=True,
          why="table lookup by file name / extension (enumerated completely by the C07 check)")
class GetCommentStyle:
    types = {"path": "Path", "return": "Optional[Style]"}
    pure = True


@contract("reuse.extract.contains_reuse_info", serves=["C11"], assumed=True, why="pure function of the text (C02)")
class ContainsReuseInfo:
    types = {"text": "str", "return": "bool"}
    pure = True


@contract("reuse.extract.detect_line_endings", serves=["C11"], assumed=True, why="pure function of the text (C08)")
class DetectLineEndings:
    types = {"text": "str", "return": "str"}
    pure = True


def _header_fn(qualname):
    @contract(qualname, serves=["C11", "C15"], assumed=True,
              why="string function (C07-C10); may fail with CommentCreateError or MissingReuseInfoError; no file-system effect")
    class _H:
        types = {"text": "str", "reuse_info": "ReuseInfo", "template": "Optional[Template]", "template_is_commented": "bool",
                 "style": "Optional[Style]", "force_multi": "bool", "merge_copyrights": "bool", "return": "str"}
        raises = {CommentCreateError: None, MissingReuseInfoError: None}
    return _H


_header_fn("reuse.header.find_and_replace_header")
_header_fn("reuse.header.add_new_header")


@spec
def target_of(path, style, fallback_dot_license, skip_unrecognised):
    """the file add_header_to_file works on: FILE, or FILE.license when the type is unrecognised and the fallback is on"""
    return path


@contract("reuse._annotate.add_header_to_file", serves=["C11", "C15"])
class AddHeaderToFile:
    types = {"path": "Path", "reuse_info": "ReuseInfo", "template": "Optional[Template]", "template_is_commented": "bool",
             "style": "Optional[str]", "force_multi": "bool", "skip_existing": "bool", "skip_unrecognised": "bool",
             "fallback_dot_license": "bool", "merge_copyrights": "bool", "replace": "bool", "out": "OutStream", "return": "int"}
    modifies_ghost = ["fs_written", "annotate_visited"]
    raises = {OSError: None}

    def ghost_init(engine, st):
        # ghost event "the helper was entered for this path" (lets the caller's contract say that every file is processed)
        st.ghost["annotate_visited"] = engine.set_add(engine.lookup("annotate_visited", st), st.env["path"])

    def post(path, fallback_dot_license, result, fs_written, fs_removed, fs_dirs, annotate_visited):
        return ((result == 0 or result == 1)
                # only the named file or its .license sibling is ever written; nothing is removed, no directory made
                and fs_written <= old(fs_written) | {path, license_suffix(path)}
                and fs_removed == old(fs_removed) and fs_dirs == old(fs_dirs)
                # C11: a failed annotation leaves the file and its .license sibling exactly as they were
                and implies(result == 1, fs_written == old(fs_written))
                and annotate_visited == old(annotate_visited) | {path})

    exc_post = {OSError: lambda path, fs_written, fs_removed: fs_written <= old(fs_written) | {path, license_suffix(path)}
                and fs_removed == old(fs_removed)}


def kf_fallback_touch(fallback_dot_license):
    """known finding: with --fallback-dot-license the empty FILE.license is created (touch) before the header is built,
    so it stays behind when the header cannot be created"""
    return fallback_dot_license


# ---- the annotate command ------------------------------------------------------------------------------------------------
project_of = ufun("project_of", ["ClickObj"], "Project")
covered_files = ufun("covered_files", ["Project"], "list[Path]")          # what Project.all_files() yields (C03)
license_path_of = ufun("license_path_of", ["Path"], "Path")               # FILE.license if it exists, else FILE (C04)


@contract("reuse.project.Project.all_files", serves=["C15", "C03"], assumed=True,
          why="the covered files of the whole project (iter_files from the root: C03); a call with an explicit directory is "
              "deliberately left unspecified here, so code that walks only a named directory does not satisfy callers' contracts")
class AllFiles:
    types = {"self": "Project", "directory": "Optional[Path]", "return": "list[Path]"}

    def post(self, directory, result):
        return implies(directory is None, result == covered_files(self))


@contract("reuse._util._determine_license_path", serves=["C15"], assumed=True, why="verified in C04; here named by a ghost function")
class DetermineLicensePathNamed:
    types = {"path": "Path", "return": "Path"}
    pure = True
    result_name = lambda path: license_path_of(path)


@contract("reuse.cli.annotate.all_paths", serves=["C15", "C03"])
class AllPaths:
    types = {"paths": "set[Path]", "recursive": "bool", "project": "Project", "return": "list[Path]"}
    ghost = {"q0": "Path"}

    def post(paths, recursive, project, result, q0):
        # annotate touches only the files named or, with --recursive, the project's covered files below the named
        # directories (through their .license sibling when one exists)
        cov = covered_files(project)
        return implies(q0 in result,
                       exists(lambda p: q0 == license_path_of(p) and p.is_file()
                              and (p in paths
                                   or (recursive and exists(lambda c: c in cov and p == c.resolve(), "Path")
                                       and exists(lambda d: d in paths and not d.is_file() and d.resolve() in p.parents, "Path"))), "Path"))

    # (stated over the ghost set of covered files, not over a local of the body)
    loops = {0: LoopSpec(
        inv=lambda result, paths, project, _done: forall(lambda p: implies(
            p in result,
            (p in _done and p.is_file())
            or (exists(lambda c: c in covered_files(project) and p == c.resolve(), "Path")
                and exists(lambda d: d in _done and not d.is_file() and d.resolve() in p.parents, "Path"))), "Path"),
        types={"result": "set[Path]"})}


annot_paths = ufun("annot_paths", ["set[Path]", "bool", "Project"], "list[Path]")
AllPaths.result_name = lambda paths, recursive, project: annot_paths(paths, recursive, project)


def _usage_helper(qualname, types, ret=None):
    @contract(qualname, serves=["C11", "C15"], assumed=True,
              why="option validation / object construction: reads only, may end in click.UsageError (before any file is touched)")
    class _U:
        raises = {click.UsageError: None}
    _U.types = dict(types)
    return _U


_usage_helper("reuse.cli.annotate.test_mandatory_option_required", {"copyright_": "list[str]", "license_": "list[Expr]", "contributor": "list[str]"})
_usage_helper("reuse.cli.annotate.verify_paths_comment_style", {"style": "Optional[str]", "fallback_dot_license": "bool", "skip_unrecognised": "bool",
                                                               "force_dot_license": "bool", "paths": "list[Path]"})
_usage_helper("reuse.cli.annotate.verify_paths_line_handling", {"single_line": "bool", "multi_line": "bool", "forced_style": "Optional[str]", "paths": "list[Path]"})
_usage_helper("reuse.cli.annotate.get_template", {"template_str": "Optional[str]", "project": "Project", "return": "tuple[Optional[Template], bool]"})
_usage_helper("reuse.cli.annotate.get_year", {"years": "list[str]", "exclude_year": "bool", "return": "Optional[str]"})
_usage_helper("reuse.cli.annotate.get_reuse_info", {"copyrights": "list[str]", "licenses": "list[Expr]", "contributors": "list[str]",
                                                    "copyright_prefix": "Optional[str]", "year": "Optional[str]", "return": "ReuseInfo"})


@contract("reuse.comment.is_uncommentable", serves=["C11", "C15"], assumed=True, why="table lookup (comment style of the extension)")
class IsUncommentable:
    types = {"path": "Path", "return": "bool"}
    pure = True


@spec
def target_touched(visited, p):
    return p in visited or license_suffix(p) in visited


@contract("reuse.cli.annotate.annotate", serves=["C11", "C15"])
class Annotate:
    types = {"obj": "ClickObj", "copyrights": "list[str]", "licenses": "list[Expr]", "contributors": "list[str]", "years": "list[str]",
             "style": "Optional[str]", "copyright_prefix": "Optional[str]", "template_str": "Optional[str]", "exclude_year": "bool",
             "merge_copyrights": "bool", "single_line": "bool", "multi_line": "bool", "recursive": "bool", "no_replace": "bool",
             "force_dot_license": "bool", "fallback_dot_license": "bool", "skip_unrecognised": "bool", "skip_existing": "bool",
             "paths": "set[Path]"}
    raises = {SystemExit: None, click.UsageError: None, OSError: None, KeyboardInterrupt: None}
    modifies = ["ClickObj._project@obj"]
    modifies_ghost = ["fs_written", "annotate_visited"]
    ghost = {"p0": "Path"}

    exc_post = {
        # every file of the invocation is processed (whatever happened to the others), only the named files or their
        # .license siblings are written, nothing is removed, and the exit status is 0 or 1
        SystemExit: lambda obj, paths, recursive, exc_code, fs_written, fs_removed, annotate_visited, p0: (
            (exc_code == 0 or exc_code == 1) and fs_removed == old(fs_removed)
            and implies(p0 in annot_paths(paths, recursive, project_of(obj)), target_touched(annotate_visited, p0))
            and implies(p0 in fs_written and p0 not in old(fs_written),
                        exists(lambda q: q in annot_paths(paths, recursive, project_of(obj)) and (p0 == q or p0 == license_suffix(q)), "Path"))),
        # usage errors are detected before any file is touched
        click.UsageError: lambda fs_written, fs_removed, fs_dirs: (
            fs_written == old(fs_written) and fs_removed == old(fs_removed) and fs_dirs == old(fs_dirs)),
    }

    def post(obj):
        return False

    loops = {0: LoopSpec(
        capture={"w0": lambda fs_written: fs_written, "r0": lambda fs_removed: fs_removed},
        inv=lambda result, _i, _it, fs_written, fs_removed, annotate_visited, w0, r0, p0: (
            set(_it) == set(_it)       # states the index <-> element-set link for the list of paths
            and result >= 0 and fs_removed == r0
            and forall(lambda j: implies(0 <= j and j < _i, target_touched(annotate_visited, _it[j])), "int")
            and implies(p0 in fs_written and p0 not in w0,
                        exists(lambda j: 0 <= j and j < _i and (p0 == _it[j] or p0 == license_suffix(_it[j])), "int"))),
        ghost=["fs_written", "annotate_visited"], types={"binary": "bool", "new_path": "Path"})}


# ---- convert-dep5 ------------------------------------------------------------------------------------------------------------
path_join = ufun("path_join", ["Path", "Path"], "Path")
path_of_str = ufun("path_of_str", ["str"], "Path")


@contract("reuse.convert_dep5.toml_from_dep5", serves=["C17", "C15"], assumed=True,
          why="pure text generation (python-debian objects -> tomlkit.dumps); its content is C17's bounded obligation")
class TomlFromDep5:
    types = {"dep5": "Copyright", "return": "str"}
    pure = True


@spec
def dep5_path(project):
    return path_join(project.root, path_of_str(".reuse/dep5"))


@spec
def toml_path(project):
    return path_join(project.root, path_of_str("REUSE.toml"))


@contract("reuse.cli.convert_dep5.convert_dep5", serves=["C17", "C15"])
class ConvertDep5:
    types = {"obj": "ClickObj"}
    modifies = ["ClickObj._project@obj"]
    modifies_ghost = ["fs_written", "fs_removed", "fs_written_at_unlink"]
    raises = {click.UsageError: None, OSError: None}

    def post(obj, fs_written, fs_removed, fs_dirs, fs_written_at_unlink):
        project = project_of(obj)
        return (fs_written == old(fs_written) | {toml_path(project)}          # only REUSE.toml is written ...
                and fs_removed == old(fs_removed) | {dep5_path(project)}       # ... only .reuse/dep5 is removed ...
                and toml_path(project) in fs_written_at_unlink                # ... and only after REUSE.toml has been written
                and fs_dirs == old(fs_dirs) and dep5_path(project).exists())

    exc_post = {
        # refusal (no dep5 file) and configuration errors happen before anything is touched
        click.UsageError: lambda fs_written, fs_removed: fs_written == old(fs_written) and fs_removed == old(fs_removed),
        # if writing REUSE.toml fails, the dep5 file is still there
        OSError: lambda fs_removed: fs_removed == old(fs_removed),
    }
