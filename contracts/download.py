"""Sidecar contracts for reuse.download and the download command (C19, C15)."""
import click
from urllib.error import URLError
from pyvc.api import contract, spec, lemma, implies, forall, exists, old, ufun, in_lang, LoopSpec
from contracts.report import strip_plus

net_fails = ufun("net_fails", ["str"], "bool")          # the network outcome per identifier (stubbed network)
downloaded_text = ufun("downloaded_text", ["str"], "str")


@contract("reuse.download.download_license", serves=["C19"], assumed=True,
          why="urllib: either returns the text or raises URLError (HTTPError is a URLError); no file-system effect")
class DownloadLicense:
    types = {"spdx_identifier": "str", "return": "str"}
    raises_iff = {URLError: lambda spdx_identifier: net_fails(spdx_identifier)}

    def post(spdx_identifier, result):
        return result == downloaded_text(spdx_identifier)


@spec
def is_licenseref(s):
    return in_lang(r"LicenseRef-[a-zA-Z0-9\-.]+\n?", s)


@spec
def nothing_written(fs_written, fs_removed, fs_dirs, old_w, old_r, old_d, dest):
    return fs_written == old_w and fs_removed == old_r and fs_dirs <= old_d | {dest.parent}


@contract("reuse.download.put_license_in_file", serves=["C19", "C15"])
class PutLicenseInFile:
    types = {"spdx_identifier": "str", "destination": "Path", "source": "Optional[Path]"}
    modifies_ghost = ["fs_written", "fs_dirs"]
    raises = {FileExistsError: lambda destination: destination.exists(),
              URLError: lambda spdx_identifier: net_fails(spdx_identifier) and not is_licenseref(spdx_identifier),
              FileNotFoundError: lambda spdx_identifier, source: is_licenseref(spdx_identifier) and source is not None}
    # never a write to an existing file, nothing written at all (no partial file) when it fails, no network for LicenseRef-
    exc_post = {
        FileExistsError: lambda destination, fs_written, fs_removed, fs_dirs: nothing_written(
            fs_written, fs_removed, fs_dirs, old(fs_written), old(fs_removed), old(fs_dirs), destination),
        URLError: lambda destination, fs_written, fs_removed, fs_dirs: nothing_written(
            fs_written, fs_removed, fs_dirs, old(fs_written), old(fs_removed), old(fs_dirs), destination),
        FileNotFoundError: lambda destination, fs_written, fs_removed, fs_dirs: nothing_written(
            fs_written, fs_removed, fs_dirs, old(fs_written), old(fs_removed), old(fs_dirs), destination),
    }

    def post(spdx_identifier, destination, fs_written, fs_removed, fs_dirs):
        return (fs_written == old(fs_written) | {destination}       # exactly the destination is written
                and fs_removed == old(fs_removed) and fs_dirs <= old(fs_dirs) | {destination.parent}
                and not destination.exists()                         # ... and it did not exist before
                and implies(not is_licenseref(spdx_identifier), not net_fails(spdx_identifier)))


license_dest = ufun("license_dest", ["Project", "str"], "Path")
project_of = ufun("project_of", ["ClickObj"], "Project")


@contract("reuse.download._path_to_license_file", serves=["C19"], assumed=True,
          why="LICENSES/<identifier>.txt under the project root (find_licenses_directory, the cwd-is-LICENSES special case); "
              "exercised by the bounded download check")
class PathToLicenseFile:
    types = {"spdx_identifier": "str", "project": "Project", "return": "Path"}
    pure = True

    def post(spdx_identifier, project, result):
        return result == license_dest(project, spdx_identifier)


def _echo_only(qualname, types):
    @contract(qualname, serves=["C19"], assumed=True, why="prints a message (click.echo); no file-system effect")
    class _E:
        pass
    _E.types = types
    return _E


_echo_only("reuse.cli.download._could_not_download", {"identifier": "str"})
_echo_only("reuse.cli.download._already_exists", {"path": "Path"})
_echo_only("reuse.cli.download._not_found", {"path": "Path"})
_echo_only("reuse.cli.download._successfully_downloaded", {"destination": "Path"})


@spec
def dest_of(obj, output, lic):
    return output if output is not None else license_dest(project_of(obj), lic)


@contract("reuse.cli.download.download", serves=["C19"])
class Download:
    types = {"obj": "ClickObj", "licenses": "set[str]", "all_": "bool", "output": "Optional[Path]", "source": "Optional[Path]"}
    raises = {SystemExit: None, click.UsageError: None, KeyboardInterrupt: None}
    modifies = ["ClickObj._project@obj"]
    modifies_ghost = ["fs_written", "fs_dirs"]
    ghost = {"l0": "str"}

    # the failure of any licence of the batch shows in the exit status: exit 0 only if every requested licence
    # ('ID+' requested as 'ID') was written; nothing is ever removed
    exc_post = {SystemExit: lambda obj, output, licenses, all_, exc_code, fs_written, fs_removed, l0: (
        (exc_code == 0 or exc_code == 1) and fs_removed == old(fs_removed)
        and implies(exc_code == 0 and l0 in licenses and not all_, dest_of(obj, output, strip_plus(l0)) in fs_written))}

    def post(obj):
        return False

    loops = {0: LoopSpec(
        capture={"removed0": lambda fs_removed: fs_removed},
        inv=lambda obj, output, licenses, return_code, _done, fs_written, fs_removed, removed0, l0: (
            (return_code == 0 or return_code == 1) and fs_removed == removed0
            and implies(return_code == 0 and strip_plus(l0) in _done, dest_of(obj, output, strip_plus(l0)) in fs_written)),
        ghost=["fs_written", "fs_dirs"], types={"destination": "Optional[Path]"})}
