"""Verified contracts for the usage checks of the annotate command (C11): unsupported --single-line / --multi-line and
unrecognised file types are refused with a usage error (exit status 2) - and only then."""
import click
from pyvc.api import contract, spec, lemma, implies, forall, exists, old, ufun, LoopSpec

style_by_name = ufun("style_by_name", ["Optional[str]"], "Optional[Style]")      # NAME_STYLE_MAP.get
detected_style = ufun("detected_style", ["Path"], "Optional[Style]")             # get_comment_style
can_single = ufun("can_single", ["Style"], "bool")
can_multi = ufun("can_multi", ["Style"], "bool")


@contract("reuse.comment.get_comment_style", serves=["C11", "C15"], assumed=True,
          why="table lookup by file name / extension (enumerated completely by the C07 check)")
class GetCommentStyleNamed:
    types = {"path": "Path", "return": "Optional[Style]"}
    pure = True

    def post(path, result):
        return result == detected_style(path)


@contract("reuse.comment.has_style", serves=["C11"], assumed=True, why="get_comment_style(path) is not None")
class HasStyle:
    types = {"path": "Path", "return": "bool"}
    pure = True

    def post(path, result):
        return result == (detected_style(path) is not None)


@spec
def effective_style(forced_style, path):
    """the style annotate will use for this path: the forced one if the name is known, else the detected one"""
    return style_by_name(forced_style) if (forced_style is not None and style_by_name(forced_style) is not None) else detected_style(path)


@spec
def refuses(single_line, multi_line, forced_style, path):
    st = effective_style(forced_style, path)
    return st is not None and ((single_line and not can_single(st)) or (multi_line and not can_multi(st)))


@contract("reuse.cli.annotate.verify_paths_line_handling", serves=["C11"])
class VerifyPathsLineHandling:
    types = {"single_line": "bool", "multi_line": "bool", "forced_style": "Optional[str]", "paths": "list[Path]"}
    # C11: an unsupported --single-line / --multi-line is a usage error for EVERY file of the invocation, judged by that
    # file's own style - and nothing else is refused here
    raises_iff = {click.UsageError: lambda single_line, multi_line, forced_style, paths: exists(
        lambda j: 0 <= j and j < len(paths) and refuses(single_line, multi_line, forced_style, paths[j]), "int")}
    loops = {0: LoopSpec(inv=lambda single_line, multi_line, forced_style, paths, _i: forall(
        lambda j: implies(0 <= j and j < _i, not refuses(single_line, multi_line, forced_style, paths[j])), "int"),
        types={"style": "Optional[Style]"})}


@contract("reuse.cli.annotate.verify_paths_comment_style", serves=["C11"])
class VerifyPathsCommentStyle:
    types = {"style": "Optional[str]", "fallback_dot_license": "bool", "skip_unrecognised": "bool", "force_dot_license": "bool",
             "paths": "list[Path]"}
    # C11: an unrecognised type without a chosen fallback is a usage error, whatever its position in the argument list
    raises_iff = {click.UsageError: lambda style, fallback_dot_license, skip_unrecognised, force_dot_license, paths: (
        (style is None or style == "") and not fallback_dot_license and not skip_unrecognised and not force_dot_license
        and exists(lambda j: 0 <= j and j < len(paths) and detected_style(paths[j]) is None, "int"))}
    loops = {0: LoopSpec(inv=lambda paths, unrecognised_files, _i: forall(
        lambda p: (p in unrecognised_files) == exists(lambda j: 0 <= j and j < _i and paths[j] == p and detected_style(p) is None, "int"), "Path"),
        types={"unrecognised_files": "set[Path]"})}
