"""Sidecar contracts for reuse.extract (no file under /repo is edited)."""
from pyvc.api import contract, spec, lemma, implies, forall, exists, hide, LoopSpec
import reuse.extract as _m

START = _m.REUSE_IGNORE_START
END = _m.REUSE_IGNORE_END


@spec(recursive=True)
def ignore_filtered(t: str) -> str:
    """C12 spec, written from the property statement: text from a start marker up to and including the
    next end marker (or to the end of the text) is removed; scanning resumes after the end marker."""
    if START not in t:
        return t
    i = t.index(START)
    k = t.find(END, i + len(START))
    if k < 0:
        return t[:i]
    return t[:i] + ignore_filtered(t[k + len(END):])


@contract("reuse.extract.filter_ignore_block", serves=["C12"])
class FilterIgnoreBlock:
    types = {"text": "str", "return": "str"}

    def post(text, result):
        return result == ignore_filtered(text)

    def decreases(text):
        return len(text)


# ---- C12 lemmas: the spec F has the clauses of the statement ------------------------------------------
@lemma(types={"t": "str"}, serves=["C12"], name="no-start-marker-keeps-text")
def _l1(t):
    # "every tag outside such blocks always does" / "a stray end marker has no effect"
    return implies(START not in t, ignore_filtered(t) == t)


@lemma(types={"a": "str", "b": "str", "c": "str"}, serves=["C12"], name="block-removed-and-scan-resumes")
def _l2(a, b, c):
    # text between the first start marker and the next end marker is dropped, scanning resumes after it
    t = a + START + b + END + c
    return implies(t.index(START) == len(a)
                   and t.find(END, len(a) + len(START)) == len(a) + len(START) + len(b),
                   ignore_filtered(t) == a + hide(ignore_filtered(c)))


@lemma(types={"a": "str", "b": "str"}, serves=["C12"], name="unterminated-block-runs-to-end")
def _l3(a, b):
    t = a + START + b
    return implies(t.index(START) == len(a) and END not in b, ignore_filtered(t) == a)
