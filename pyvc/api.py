"""The sidecar contract language.  Contracts are ordinary Python: the same function objects are
(a) translated to SMT by the engine's expression translator (the one that translates the code) and
(b) callable natively during replay."""
from __future__ import annotations

CONTRACTS = {}      # qualname -> Contract
LEMMAS = []         # Lemma
SPEC_FUNCS = {}     # qualname -> function


class LoopSpec:
    def __init__(self, inv, types=None, decreases=None, modifies=(), ghost=(), capture=None, original_order=False):
        # original_order: for `for x in reversed(xs)` the invariant is stated over xs itself: after _i iterations the
        # elements xs[len(xs)-_i:] have been consumed and `_it` is xs (not the reversed copy)
        self.original_order = original_order
        self.inv, self.types, self.decreases = inv, dict(types or {}), decreases
        self.modifies, self.ghost = list(modifies), list(ghost)
        self.capture = dict(capture or {})   # ghost locals bound at loop entry: name -> fn(locals...) (usable in invariants and post)


class Contract:
    def __init__(self, qualname):
        self.qualname = qualname
        self.serves = []
        self.types = {}
        self.pre = None
        self.post = None
        self.raises = {}        # ExcClass -> condition fn or None: MAY raise (only) when
        self.raises_iff = {}    # ExcClass -> condition fn: raises exactly when
        self.exc_post = {}      # ExcClass -> state relation when raised
        self.modifies = []      # "Class.field" heap arrays the function may write
        self.modifies_ghost = []
        self.loops = {}
        self.decreases = None
        self.inline = False     # tiny helper: contract is its body (still verified if it has a post)
        self.assumed = False    # external / trusted: never verified, listed in the trusted base
        self.why = ""           # justification for assumed contracts
        self.ghost = {}          # ghost (skolem) parameters: arbitrary constants when verifying, universally quantified at call sites
        self.observe = {}        # name -> fn(params...) : observer terms whose model values are reported with counter-models
        self.result_name = None   # fn(params...) -> ghost term naming the result at call sites (determinism assumption, not verified)
        self.pure = False         # result is a function of the arguments and nothing is written: may be hoisted out of binders
        self.fresh_result = False  # the returned object is newly allocated by the function (checked when verifying)
        self.ghost_init = None  # fn(engine, state) -> None, sets up ghost state for verification
        self.concretise = None  # fn(model dict) -> (args, kwargs) for native replay
        self.native_check = None  # fn(args, kwargs, result_or_exc) -> bool, native reading of the postcondition


def contract(qualname, **kw):
    def deco(cls):
        c = Contract(qualname)
        for k, v in cls.__dict__.items():
            if k.startswith("__"):
                continue
            if isinstance(v, staticmethod):
                v = v.__func__
            setattr(c, k, v)
        for k, v in kw.items():
            setattr(c, k, v)
        CONTRACTS[qualname] = c
        return c
    return deco


def spec(fn=None, *, recursive=False, opaque=False, reads=()):
    """opaque=True: calls are uninterpreted applications; the body is only visible through reveal(f(args))."""
    def deco(f):
        f.__pyvc_spec__ = {"recursive": recursive, "opaque": opaque, "reads": list(reads)}
        SPEC_FUNCS[f"{f.__module__}.{f.__qualname__}"] = f
        return f
    return deco(fn) if fn is not None else deco


class Lemma:
    def __init__(self, fn, types, serves, name=None, hyps=()):
        self.fn, self.types, self.serves = fn, types, serves
        self.name = name or fn.__name__


def lemma(types, serves=(), name=None):
    def deco(f):
        f.__pyvc_lemma__ = Lemma(f, types, list(serves), name)
        LEMMAS.append(f.__pyvc_lemma__)
        return f
    return deco


def reveal(x):
    """reveal(f(args)): make the definition of the opaque spec function f available for these arguments."""
    return True


def use(lemma_fn, *args):
    """use(lemma, a, b): assume the (separately proved) lemma instantiated at a, b; remaining parameters are
    universally quantified."""
    return True


# ---- spec vocabulary with native meanings (used during replay) -----------------------------------
def implies(a, b):
    return (not a) or b


def forall(pred, *types):
    raise NotImplementedError("forall has no native evaluation; provide native_check for replay")


def exists(pred, *types):
    raise NotImplementedError("exists has no native evaluation; provide native_check for replay")


def old(x):
    return x


def hide(x):
    """Evaluate x without revealing spec-function definitions (no native effect)."""
    return x


class UFun:
    """An uninterpreted (ghost) function: a z3 UF in VCs; no native meaning."""

    def __init__(self, name, argtypes, rettype, native=None):
        self.name, self.argtypes, self.rettype, self.native = name, list(argtypes), rettype, native

    def __call__(self, *a):
        if self.native is not None:        # used only when a counter-model is replayed natively
            return self.native(*a)
        raise NotImplementedError(f"ghost function {self.name} has no native evaluation")


def ufun(name, argtypes, rettype, native=None):
    return UFun(name, argtypes, rettype, native)


def in_lang(regex_text, s):
    """s is in the language of regex_text (whole-string match).  Symbolic: z3 regular-language membership."""
    import re
    return re.fullmatch(regex_text, s, re.DOTALL) is not None
