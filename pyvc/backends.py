"""Back ends: z3 (Python API, fresh context per VC) then /usr/bin/cvc5 --strings-exp for z3's unknowns,
then the z3-new CLI with another seed.  unsat from any back end discharges; sat refutes; else undecided."""
from __future__ import annotations

import concurrent.futures as cf
import multiprocessing as mp
import os
import re
import subprocess
import tempfile
import time

import z3


def _model_values(model, names):
    vals = {}
    for d in model.decls():
        n = d.name()
        if n in names and d.arity() == 0:
            v = model[d]
            try:
                if z3.is_string_value(v):
                    vals[n] = {"kind": "str", "value": v.as_string()}
                elif z3.is_int_value(v):
                    vals[n] = {"kind": "int", "value": v.as_long()}
                elif z3.is_true(v) or z3.is_false(v):
                    vals[n] = {"kind": "bool", "value": z3.is_true(v)}
                else:
                    vals[n] = {"kind": "sexpr", "value": v.sexpr()[:2000]}
            except Exception as e:  # pragma: no cover
                vals[n] = {"kind": "error", "value": str(e)}
    return vals


def _model_ok(model, formulas):
    """A `sat` answer is only used if the model really satisfies every (quantifier-free) assertion: z3 5.1 has returned
    models over wide-Unicode loop expressions that falsify the very formula they were produced for."""
    for f in formulas:
        try:
            v = model.eval(f, model_completion=True)
        except z3.Z3Exception:
            continue
        if z3.is_false(v):
            return False
    return True


def _decode_z3_string(s):
    # z3 prints non-ASCII as \u{XXXX}
    return re.sub(r"\\u\{([0-9a-fA-F]+)\}", lambda m: chr(int(m.group(1), 16)), s)


def _find_inre(e, acc, seen):
    stack = [e]
    while stack:
        x = stack.pop()
        i = x.get_id()
        if i in seen:
            continue
        seen.add(i)
        if z3.is_quantifier(x):
            continue                      # atoms under binders are left to the solver
        if z3.is_app(x):
            if x.decl().kind() == z3.Z3_OP_SEQ_IN_RE:
                acc.append(x)
                continue
            stack.extend(x.children())


def regex_cegar(smt2, timeout_s, input_names):
    """SMT modulo regular languages, lazily: every membership atom InRe(t, R) (outside quantifiers) is abstracted by a
    Boolean; a propositional model is checked per subject term by ONE membership query over the intersection of the
    (complemented) languages; empty minterms are generalised and blocked.  Sound in both directions: `unsat` only
    uses valid blocking clauses, `sat` comes with concrete witness strings for every subject."""
    t0 = time.time()
    ctx = z3.Context()
    fs = z3.parse_smt2_string(smt2, ctx=ctx)
    # one normal form for all terms: the same subject written by the code (conditions are simplified when a path forks)
    # and by a specification must be ONE subject, or its memberships are never confronted with each other
    atoms, seen = [], set()
    for f in fs:
        _find_inre(f, atoms, seen)
    if not atoms:
        return None
    # subjects that are the same value written differently (e.g. `parts[-1] if parts else ""` once with and once without
    # the redundant bounds test) are made ONE term: t1 == t2 must be valid on its own, then t2 is rewritten to t1 everywhere
    subjects = {}
    for a in atoms:
        subjects.setdefault(a.arg(0).get_id(), a.arg(0))
    subjects = list(subjects.values())
    rewrites = []
    if 1 < len(subjects) <= 8:
        rep = []
        for t in subjects:
            for r in rep:
                if r.sort() != t.sort():
                    continue
                q = z3.Solver(ctx=ctx)
                q.set("timeout", 1000)
                q.add(r != t)
                if q.check() == z3.unsat:
                    rewrites.append((t, r))
                    break
            else:
                rep.append(t)
    # ... and subjects identified by an unconditional equality of the problem itself (observer constants: `obs_name == name`)
    def _conj(f):
        if z3.is_and(f):
            for c in f.children():
                yield from _conj(c)
        else:
            yield f
    sid = {t.get_id() for t in subjects}
    for c in [c for f in fs for c in _conj(f)]:
        if z3.is_eq(c) and c.arg(0).sort() == z3.StringSort(ctx):
            l, r = c.arg(0), c.arg(1)
            if l.get_id() in sid and r.get_id() in sid:
                rewrites.append((l, r))
            elif l.get_id() in sid and z3.is_const(l) and l.decl().kind() == z3.Z3_OP_UNINTERPRETED:
                rewrites.append((l, r))
            elif r.get_id() in sid and z3.is_const(r) and r.decl().kind() == z3.Z3_OP_UNINTERPRETED:
                rewrites.append((r, l))
    if rewrites:
        fs = [z3.substitute(f, *rewrites) for f in fs]
        atoms, seen = [], set()
        for f in fs:
            _find_inre(f, atoms, seen)
    uniq = {}
    for a in atoms:
        uniq.setdefault(a.get_id(), a)
    atoms = list(uniq.values())
    if len(atoms) > 60:
        return None
    bools = [z3.Bool(f"__re{i}", ctx) for i in range(len(atoms))]
    subs = list(zip(atoms, bools))
    abstracted = [z3.substitute(f, *subs) for f in fs]
    groups = {}
    for a, b in subs:
        groups.setdefault(a.arg(0).get_id(), (a.arg(0), []))[1].append((a.arg(1), b))
    # unconditional facts about a subject alone (e.g. "the name contains no newline"): used when a minterm is tested for
    # emptiness, so that witnesses respect them (sound: they are top-level conjuncts of the problem)
    def conjuncts(f):
        if z3.is_and(f):
            for c in f.children():
                yield from conjuncts(c)
        else:
            yield f

    def syms(e):
        out, seen_, stack = set(), set(), [e]
        while stack:
            x_ = stack.pop()
            if x_.get_id() in seen_:
                continue
            seen_.add(x_.get_id())
            if z3.is_quantifier(x_):
                out.add("<quantifier>")
                continue
            if z3.is_app(x_):
                if x_.decl().kind() == z3.Z3_OP_UNINTERPRETED:
                    out.add(x_.decl().name())
                stack.extend(x_.children())
        return out
    top = [c for f in fs for c in conjuncts(f)]
    side = {}
    for gid, (term, members) in groups.items():
        ts = syms(term)
        tsx = term.sexpr()
        facts = []
        for c in top:
            if len(facts) >= 6:
                break
            cs = syms(c)
            if "<quantifier>" in cs or not cs or not cs <= ts or tsx not in c.sexpr():
                continue
            acc, seen2 = [], set()
            _find_inre(c, acc, seen2)
            if acc:
                continue
            facts.append(c)
        side[gid] = facts
    s = z3.Solver(ctx=ctx)
    s.set("timeout", int(max(1, timeout_s) * 1000))
    s.add(*abstracted)
    rounds = 0
    while time.time() - t0 < timeout_s and rounds < 400:
        rounds += 1
        r = s.check()
        if r == z3.unsat:
            return ("unsat", None, rounds)
        if r != z3.sat:
            return None
        m = s.model()
        blocked = False
        witnesses = []
        for gid, (term, members) in groups.items():
            lits = []
            for R, b in members:
                v = m.eval(b, model_completion=True)
                lits.append((R, b, z3.is_true(v)))

            def nonempty(sel):
                x = z3.String("__w", ctx)
                if time.time() - t0 > timeout_s:
                    return None, None
                # 1. derivative-based emptiness (pyvc/rxempty.py); a witness is re-validated by z3 on the concrete string
                from . import rxempty
                lits = [(R, pos) for R, b, pos in sel]
                pure = True
                for fact in side.get(gid, ()):
                    f2 = z3.substitute(fact, (term, x))
                    if z3.is_not(f2) and f2.arg(0).decl().kind() == z3.Z3_OP_SEQ_CONTAINS and f2.arg(0).arg(0).eq(x) \
                            and z3.is_string_value(f2.arg(0).arg(1)) and len(_decode_z3_string(f2.arg(0).arg(1).as_string())) == 1:
                        rs = z3.ReSort(z3.StringSort(ctx))
                        lits.append((z3.Star(z3.Intersect(z3.AllChar(rs), z3.Complement(z3.Re(f2.arg(0).arg(1))))), True))
                    else:
                        pure = False
                ok_, w_ = rxempty.nonempty(lits)
                if ok_ is False and pure:
                    return False, None
                if ok_ is True:
                    sv = z3.StringVal(w_, ctx)
                    chk = [z3.simplify(z3.InRe(sv, R)) for R, pos in lits]
                    if all((z3.is_true(c) if pos else z3.is_false(c)) for c, (R, pos) in zip(chk, lits)):
                        if pure:
                            return True, w_
                    elif os.environ.get("PYVC_TRACE_CEGAR"):
                        print("cegar: rxempty witness rejected by z3:", repr(w_))
                # 2. the SMT solver
                q = z3.Solver(ctx=ctx)
                q.set("timeout", 12000)
                for R, b, pos in sel:
                    q.add(z3.InRe(x, R) if pos else z3.Not(z3.InRe(x, R)))
                for fact in side.get(gid, ()):
                    f2 = z3.substitute(fact, (term, x))
                    # "c does not occur in x" for a single character c, as a membership (keeps the query purely regular)
                    if z3.is_not(f2) and f2.arg(0).decl().kind() == z3.Z3_OP_SEQ_CONTAINS and f2.arg(0).arg(0).eq(x) \
                            and z3.is_string_value(f2.arg(0).arg(1)) and len(_decode_z3_string(f2.arg(0).arg(1).as_string())) == 1:
                        ch_ = f2.arg(0).arg(1)
                        rs = z3.ReSort(z3.StringSort(ctx))
                        q.add(z3.InRe(x, z3.Star(z3.Intersect(z3.AllChar(rs), z3.Complement(z3.Re(ch_))))))
                    else:
                        q.add(f2)
                rr = q.check()
                if rr == z3.sat:
                    w = q.model()[x]
                    return True, (w.as_string() if w is not None else "")
                if rr == z3.unsat:
                    return False, None
                if os.environ.get("PYVC_TRACE_CEGAR"):
                    open("/tmp/minterm.smt2", "w").write(q.to_smt2())
                    print("cegar: minterm query undecided for", str(term)[:40], [(pos, str(R).replace("\n", " ")[:70]) for R, b, pos in sel])
                return None, None
            ok, w = nonempty(lits)
            if ok is None:
                return None
            if ok:
                witnesses.append((term, w))
                continue
            # minimise the empty minterm greedily, then block it
            core = list(lits)
            for item in list(core):
                trial = [c for c in core if c is not item]
                if trial:
                    ok2, _ = nonempty(trial)
                    if ok2 is False:
                        core = trial
            s.add(z3.Or(*[z3.Not(b) if pos else b for R, b, pos in core]))
            blocked = True
        if blocked:
            continue
        # every subject has a witness for its minterm: check that the witnesses are consistent with the rest by
        # pinning the subjects to them (they may be constrained by other string facts)
        s2 = z3.Solver(ctx=ctx)
        s2.set("timeout", 5000)
        s2.add(*fs)
        for term, w in witnesses:
            s2.add(term == z3.StringVal(w, ctx))
        r2 = s2.check()
        if r2 == z3.sat and _model_ok(s2.model(), fs):
            return ("sat", _model_values(s2.model(), set(input_names)), rounds)
        # This particular witness does not extend (the subject is constrained by other string facts).  That alone says
        # nothing about the propositional assignment: decide the assignment itself with the memberships as real constraints.
        # Only a genuine `unsat` of it may be blocked; anything else ends the abstraction inconclusively.
        s3 = z3.Solver(ctx=ctx)
        s3.set("timeout", 8000)
        s3.add(*fs)
        for a, b in subs:
            s3.add(a if z3.is_true(m.eval(b, model_completion=True)) else z3.Not(a))
        r3 = s3.check()
        if os.environ.get("PYVC_TRACE_CEGAR"):
            for a, b in subs:
                print("   atom", z3.is_true(m.eval(b, model_completion=True)), str(a.arg(0))[:30], str(a.arg(1)).replace("\n", " ")[:150])
            print("cegar: witness not extendable", [(str(t)[:40], w) for t, w in witnesses], "r2", r2, "r3", r3, s3.reason_unknown() if r3 == z3.unknown else "")
        if r3 == z3.sat and _model_ok(s3.model(), fs):
            return ("sat", _model_values(s3.model(), set(input_names)), rounds)
        if r3 == z3.sat:
            return None
        if r3 != z3.unsat:
            # weaker problem: the quantifier-free conjuncts only.  If even that is unsatisfiable under this assignment,
            # so is the full problem, and the assignment may be blocked; any other answer is inconclusive.
            # (every quantified subformula is replaced by a Boolean constant, the same one for identical subformulas: an
            # over-approximation, so `unsat` carries over to the full problem)
            qsubs, qseen, stack = [], set(), list(fs)
            while stack:
                x_ = stack.pop()
                if x_.get_id() in qseen:
                    continue
                qseen.add(x_.get_id())
                if z3.is_quantifier(x_):
                    qsubs.append((x_, z3.Bool(f"__q{len(qsubs)}", ctx)))
                elif z3.is_app(x_):
                    stack.extend(x_.children())
            s4 = z3.Solver(ctx=ctx)
            s4.set("timeout", 8000)
            s4.add(*[z3.substitute(f, *qsubs) if qsubs else f for f in fs])
            for a, b in subs:
                s4.add(a if z3.is_true(m.eval(b, model_completion=True)) else z3.Not(a))
            r4 = s4.check()
            if os.environ.get("PYVC_TRACE_CEGAR"):
                print("cegar: quantifier-free assignment check", r4, s4.reason_unknown() if r4 == z3.unknown else "")
                if r4 == z3.sat:
                    print("   model:", str(s4.model())[:1500])
            if r4 != z3.unsat:
                return None
        s.add(z3.Or(*[z3.Not(b) if z3.is_true(m.eval(b, model_completion=True)) else b for _, b in subs]))
    return None


def solve_one(task):
    name, smt2, kind, input_names, budgets, core = task
    t0 = time.time()
    log = []
    # --- lazy regex abstraction (membership atoms over uninterpreted subjects) --------------------
    if "str.in_re" in smt2 or "str.in.re" in smt2:
        t1 = time.time()
        try:
            rc = regex_cegar(smt2, budgets.get("regex", 40 if budgets.get("z3", 10) <= 10 else 90), input_names)
        except z3.Z3Exception as e:
            rc = None
            log.append(("regex-cegar", "error:" + str(e)[:100], round(time.time() - t1, 3)))
        if rc is not None:
            log.append(("regex-cegar", f"{rc[0]} after {rc[2]} rounds", round(time.time() - t1, 3)))
            if kind == "cover":
                return dict(name=name, verdict=rc[0], backend="z3+regex-cegar", seconds=time.time() - t0, log=log, model=rc[1])
            if rc[0] == "unsat":
                return dict(name=name, verdict="unsat", backend="z3+regex-cegar", seconds=time.time() - t0, log=log, model=None)
            vals = rc[1] or {}
            for v in vals.values():
                if v["kind"] == "str":
                    v["value"] = _decode_z3_string(v["value"])
            return dict(name=name, verdict="sat", backend="z3+regex-cegar", seconds=time.time() - t0, log=log, model=vals)
        else:
            log.append(("regex-cegar", "inconclusive", round(time.time() - t1, 3)))
    # --- staged premise selection (dropping hypotheses is sound for `unsat`) ----------------------
    stage_budget = [1, 3, 4, 5, 5, 5]
    levels = list(core or [])
    for k, txt in enumerate(levels):
        t1 = time.time()
        try:
            ctx = z3.Context()
            for seed in ((0,) if k == 0 else (0, 11)):
                s = z3.Solver(ctx=ctx)
                s.set("timeout", int(stage_budget[min(k, len(stage_budget) - 1)] * 1000))
                if seed:
                    s.set("random_seed", seed)
                s.from_string(txt)
                r = s.check()
                log.append((f"z3-stage{k}" + (f"-seed{seed}" if seed else ""), str(r), round(time.time() - t1, 3)))
                if r == z3.unsat:
                    return dict(name=name, verdict="unsat", backend="z3", seconds=time.time() - t0, log=log, model=None)
                if r == z3.sat:
                    break
        except z3.Z3Exception as e:
            log.append((f"z3-stage{k}", "error:" + str(e)[:100], round(time.time() - t1, 3)))
    # --- z3 python API -------------------------------------------------
    try:
        ctx = z3.Context()
        s = z3.Solver(ctx=ctx)
        s.set("timeout", int(budgets["z3"] * 1000))
        s.from_string(smt2)
        r = s.check()
        dt = time.time() - t0
        log.append(("z3", str(r), round(dt, 3)))
        if r == z3.unsat:
            return dict(name=name, verdict="unsat", backend="z3", seconds=dt, log=log, model=None)
        if r == z3.sat and not _model_ok(s.model(), s.assertions()):
            log.append(("z3", "sat with a model that falsifies an assertion: ignored", round(dt, 3)))
        elif r == z3.sat:
            vals = _model_values(s.model(), set(input_names))
            for v in vals.values():
                if v["kind"] == "str":
                    v["value"] = _decode_z3_string(v["value"])
            return dict(name=name, verdict="sat", backend="z3", seconds=dt, log=log, model=vals)
    except z3.Z3Exception as e:
        log.append(("z3", "error:" + str(e)[:200], round(time.time() - t0, 3)))
    # --- cvc5 CLI ----------------------------------------------------------
    if budgets.get("cvc5", 0) > 0 and "(_ map " not in smt2:
        t1 = time.time()
        try:
            txt = "(set-logic ALL)\n" + (("(set-option :produce-models true)\n") if kind == "valid" else "") + smt2
            if kind == "valid":
                txt += "\n" + "".join(f"(get-value ({n}))\n" for n in input_names if re.fullmatch(r"[A-Za-z_][\w!]*", n))
            with tempfile.NamedTemporaryFile("w", suffix=".smt2", delete=False, dir=budgets.get("tmpdir")) as fp:
                fp.write(txt)
                path = fp.name
            p = subprocess.run(["/usr/bin/cvc5", "--strings-exp", f"--tlimit={int(budgets['cvc5'] * 1000)}", path],
                               capture_output=True, text=True, timeout=budgets["cvc5"] + 10)
            os.unlink(path)
            out = p.stdout.strip().splitlines()
            verdict = out[0].strip() if out else "unknown"
            dt = time.time() - t1
            log.append(("cvc5", verdict if verdict in ("sat", "unsat", "unknown") else "error:" + (p.stdout + p.stderr)[:200], round(dt, 3)))
            if verdict == "unsat":
                return dict(name=name, verdict="unsat", backend="cvc5", seconds=time.time() - t0, log=log, model=None)
            if verdict == "sat":
                vals = {}
                for line in out[1:]:
                    m = re.match(r'\(\((\S+) "(.*)"\)\)$', line)
                    if m:
                        vals[m.group(1)] = {"kind": "str", "value": _decode_z3_string(m.group(2).replace('""', '"'))}
                        continue
                    m = re.match(r"\(\((\S+) (\(- )?(\d+)\)?\)\)$", line)
                    if m:
                        vals[m.group(1)] = {"kind": "int", "value": -int(m.group(3)) if m.group(2) else int(m.group(3))}
                        continue
                    m = re.match(r"\(\((\S+) (true|false)\)\)$", line)
                    if m:
                        vals[m.group(1)] = {"kind": "bool", "value": m.group(2) == "true"}
                return dict(name=name, verdict="sat", backend="cvc5", seconds=time.time() - t0, log=log, model=vals)
        except (subprocess.TimeoutExpired, OSError) as e:
            log.append(("cvc5", "error:" + str(e)[:100], round(time.time() - t1, 3)))
    # --- z3-new CLI with a different seed ----------------------------------------
    if budgets.get("z3cli", 0) > 0:
        t2 = time.time()
        try:
            with tempfile.NamedTemporaryFile("w", suffix=".smt2", delete=False, dir=budgets.get("tmpdir")) as fp:
                fp.write(smt2)
                path = fp.name
            p = subprocess.run(["z3-new", f"-T:{int(budgets['z3cli'])}", "smt.random_seed=7", "sat.random_seed=7", path],
                               capture_output=True, text=True, timeout=budgets["z3cli"] + 10)
            os.unlink(path)
            verdict = (p.stdout.strip().splitlines() or ["unknown"])[0]
            log.append(("z3-new", verdict[:40], round(time.time() - t2, 3)))
            if verdict == "unsat":
                return dict(name=name, verdict="unsat", backend="z3-new", seconds=time.time() - t0, log=log, model=None)
        except (subprocess.TimeoutExpired, OSError) as e:
            log.append(("z3-new", "error:" + str(e)[:100], round(time.time() - t2, 3)))
    return dict(name=name, verdict="unknown", backend=None, seconds=time.time() - t0, log=log, model=None)


def _child(conn, task):
    try:
        conn.send(solve_one(task))
    except Exception as e:  # pragma: no cover
        conn.send(dict(name=task[0], verdict="unknown", backend=None, seconds=0, log=[("worker", "error:" + repr(e)[:200], 0)], model=None))
    finally:
        conn.close()


def solve_all(vcs, tier="quick", jobs=None, scratch=None):
    """Discharge VCs in a process pool.  Fills vc.result.  Two passes: (1) goal-only and the full problem with short
    budgets (most obligations end here; only two SMT texts are printed per VC), (2) premise-selection stages, other
    seeds, cvc5 and the z3 CLI for what is left."""
    budgets = {"quick": dict(z3=10, cvc5=30, z3cli=20), "thorough": dict(z3=90, cvc5=300, z3cli=90)}[tier]
    if scratch:
        os.makedirs(scratch, exist_ok=True)
        budgets["tmpdir"] = scratch
    jobs = jobs or min(16, os.cpu_count() or 4)
    ctx = mp.get_context("fork")

    def run(tasks):
        """One forked process per obligation, killed at a hard deadline (z3's own timeout is not always honoured)."""
        out, pending, running = {}, list(tasks), []
        while pending or running:
            while pending and len(running) < jobs:
                t = pending.pop(0)
                b = t[4]
                hard = 1.6 * (b.get("z3", 10) + b.get("cvc5", 0) + b.get("z3cli", 0) + b.get("regex", 15)
                              + (40 if t[5] and len(t[5]) > 1 else 5)) + 20
                parent, child = ctx.Pipe(duplex=False)
                p = ctx.Process(target=_child, args=(child, t))
                p.start()
                child.close()
                running.append((p, parent, t, time.time() + hard))
            still = []
            for p, conn, t, deadline in running:
                if conn.poll(0):
                    try:
                        out[t[0]] = conn.recv()
                    except EOFError:
                        out[t[0]] = dict(name=t[0], verdict="unknown", backend=None, seconds=0, log=[("worker", "died", 0)], model=None)
                    p.join(1)
                    conn.close()
                elif not p.is_alive():
                    out[t[0]] = dict(name=t[0], verdict="unknown", backend=None, seconds=0, log=[("worker", "died", 0)], model=None)
                    conn.close()
                elif time.time() > deadline:
                    p.terminate()
                    p.join(2)
                    if p.is_alive():
                        p.kill()
                    out[t[0]] = dict(name=t[0], verdict="unknown", backend=None, seconds=deadline - time.time(),
                                     log=[("worker", "killed at the hard deadline (solver ignored its timeout)", 0)], model=None)
                    conn.close()
                else:
                    still.append((p, conn, t, deadline))
            running = still
            if running:
                time.sleep(0.01)
        return out

    results = {}
    first = []
    for vc in vcs:
        names = [str(c) for c in vc.inputs.values()]
        if vc.kind != "valid":
            first.append((vc.name, vc.smt2(), vc.kind, names, budgets, None))
            continue
        s0 = z3.Solver()
        s0.add(z3.Not(vc.goal))
        from .state import _fix_order
        quick_b = dict(budgets, z3=3, cvc5=0, z3cli=0, regex=budgets.get("regex", 30), first_pass=True)
        first.append((vc.name, vc.smt2(), vc.kind, names, quick_b, [_fix_order(s0.to_smt2())]))
    results.update(run(first))
    second = []
    for vc in vcs:
        r = results[vc.name]
        if vc.kind == "valid" and r["verdict"] == "unknown":
            names = [str(c) for c in vc.inputs.values()]
            second.append((vc.name, vc.smt2(), vc.kind, names, budgets, vc.levels()[1:]))
    if second:
        more = run(second)
        for name, r in more.items():
            r["log"] = results[name]["log"] + r["log"]
            r["seconds"] += results[name]["seconds"]
            results[name] = r
    for vc in vcs:
        vc.result = results[vc.name]
    return results
