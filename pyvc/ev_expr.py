"""Expression evaluation: ev(node, st) -> [(st', Val)] (normal outcomes); abrupt
outcomes (raised exceptions) are pushed on self.abrupt."""
from __future__ import annotations

import ast
import re
import z3

from .state import Val, py, Unsupported, Exc, State, fresh_name
from .types import INT, BOOL, STR, NONE, PY, TOpt, TSet, TDict, TSeq, TTuple


class Closure:
    def __init__(self, node, env, module, qualname):
        self.node, self.env, self.module, self.qualname = node, env, module, qualname


class NoOutcome(Unsupported):
    pass


class ExprMixin:
    # ---- control helpers -----------------------------------------------------
    def raise_(self, st: State, cls, where=None, **attrs):
        s = st.copy()
        s.flow = ("raise", Exc(cls, attrs, where))
        self.abrupt.append(s)

    def feasible(self, st: State) -> bool:
        if not st.pc:
            return True
        last = st.pc[-1]
        if z3.is_true(last):
            return True
        if z3.is_false(last):
            return False
        if any(self._has_quant(c) for c in st.pc):
            return True   # no reliable timeout with quantifiers/lambdas: keep the path (its VCs are then vacuous if infeasible)
        pc = st.pc
        if sum(1 for c in pc if self._big_regex(c)) >= 2:
            # several large regular-language atoms: z3's timeout is unreliable there; they are left out of the
            # feasibility query (fewer constraints = more paths kept, which is sound)
            pc = [c for c in pc if not self._big_regex(c)]
            if not pc:
                return True
        self.stats["feasibility_queries"] += 1
        s = z3.Solver()
        s.set("timeout", self.feas_timeout_ms)
        s.add(*pc)
        return s.check() != z3.unsat

    def _big_regex(self, e):
        key = ("rx", e.get_id())
        hit = self._quant_cache.get(key)
        if hit is not None:
            return hit
        seen, stack, res, inre = set(), [e], False, False
        while stack:
            x = stack.pop()
            i = x.get_id()
            if i in seen:
                continue
            seen.add(i)
            if z3.is_app(x):
                if x.decl().kind() == z3.Z3_OP_SEQ_IN_RE:
                    inre = True
                stack.extend(x.children())
            if len(seen) > 150 and inre:
                res = True
                break
        self._quant_cache[key] = res
        return res

    def _has_quant(self, e):
        key = e.get_id()
        hit = self._quant_cache.get(key)
        if hit is not None:
            return hit
        seen, stack, res = set(), [e], False
        while stack:
            x = stack.pop()
            i = x.get_id()
            if i in seen:
                continue
            seen.add(i)
            if z3.is_quantifier(x):
                res = True
                break
            if z3.is_app(x):
                stack.extend(x.children())
        self._quant_cache[key] = res
        return res

    def branch(self, st: State, cond, tag="if"):
        """-> (st_true or None, st_false or None)"""
        simp = z3.simplify(cond)
        if z3.is_true(simp):
            return st, None
        if z3.is_false(simp):
            return None, st
        # the path condition keeps the condition as the translator produced it (not its simplified form): the same Python
        # expression in code and specification must yield the same term (subjects of regular-language atoms are grouped
        # syntactically)
        # (only where it matters: conditions that carry a regular-language atom; everywhere else the simplified form, which
        # the solvers digest better, is kept)
        if "str.in_re" not in cond.sexpr():
            cond_t, cond_f = simp, z3.Not(simp)
        elif z3.is_not(simp) and not z3.is_not(cond):
            cond_t, cond_f = cond, simp            # keep a plain literal for the false branch when simplify found one
        else:
            cond_t, cond_f = cond, z3.Not(cond)
        a = st.copy().assume(cond_t, f"{tag}:T")
        b = st.copy().assume(cond_f, f"{tag}:F")
        return (a if self.feasible(a) else None), (b if self.feasible(b) else None)

    def ev_many(self, nodes, st):
        outs = [(st, [])]
        for n in nodes:
            nxt = []
            for s, vs in outs:
                for s2, v in self.ev(n, s):
                    nxt.append((s2, vs + [v]))
            outs = nxt
        return outs

    def merge(self, outs):
        """[(st, Val)] produced from ONE state by pure evaluation -> single Val (nested ite over the added pc)."""
        if len(outs) == 1:
            return outs[0][1]
        base = min(len(s.pc) for s, _ in outs)
        # common prefix length
        first = outs[0][0].pc
        k = 0
        while all(len(s.pc) > k and s.pc[k].eq(first[k]) for s, _ in outs):
            k += 1
        res = outs[-1][1]
        for s, v in reversed(outs[:-1]):
            cond = z3.And(*s.pc[k:]) if len(s.pc) > k else z3.BoolVal(True)
            res = self.ite(cond, v, res)
        return res

    def ev_pure(self, node, st) -> Val:
        mark = len(self.abrupt)
        outs = self.ev(node, st.copy())
        if len(self.abrupt) > mark:
            del self.abrupt[mark:]
            raise Unsupported(f"expression may raise in a pure context: {ast.unparse(node)[:80]}")
        if not outs:
            raise NoOutcome("pure expression has no outcome (infeasible context)")
        return self.merge(outs)

    # ---- dispatcher -------------------------------------------------------------
    def ev(self, node, st):
        m = getattr(self, "ev_" + type(node).__name__, None)
        if m is None:
            raise Unsupported(f"expression {type(node).__name__}: {ast.unparse(node)[:80]}")
        return m(node, st)

    def ev_Constant(self, n, st):
        return [(st, self.lift(n.value))]

    def ev_Name(self, n, st):
        return [(st, self.lookup(n.id, st))]

    def lookup(self, name, st):
        if name in st.env:
            return st.env[name]
        c = st.closure
        while c is not None:
            if name in c[0]:
                return c[0][name]
            c = c[1]
        if name in self.ghost_defaults:
            g = st.ghost.get(name)
            if g is None:
                g = self.ghost_defaults[name](self)
                st.ghost[name] = g
            return g
        mod = st.ghost.get("__module__")
        if mod is not None and (mod.t.__name__, name) in self.const_overrides:
            return py(self.const_overrides[(mod.t.__name__, name)])
        if mod is not None and name in mod.t.__dict__:
            return self.lift(mod.t.__dict__[name])
        import builtins
        if hasattr(builtins, name):
            return py(getattr(builtins, name))
        raise Unsupported(f"unbound name {name!r}")

    def ev_NamedExpr(self, n, st):
        outs = []
        for s, v in self.ev(n.value, st):
            s.env[n.target.id] = v
            outs.append((s, v))
        return outs

    def ev_Tuple(self, n, st):
        if any(isinstance(e, ast.Starred) for e in n.elts):
            raise Unsupported("starred tuple")
        return [(s, self.mk_tuple(vs)) for s, vs in self.ev_many(n.elts, st)]

    def ev_List(self, n, st):
        outs = []
        for s, vs in self.ev_many(n.elts, st):
            if not vs:
                outs.append((s, Val(TSeq(PY), None, {"empty": True})))
            elif all(v.is_py for v in vs):
                outs.append((s, py([v.t for v in vs])))
            else:
                ety = next(v.ty for v in vs if not v.is_py)
                outs.append((s, self.mk_seq(vs, ety)))
        return outs

    def ev_Set(self, n, st):
        outs = []
        for s, vs in self.ev_many(n.elts, st):
            if all(v.is_py for v in vs):
                lv = [self.lift(v.t) for v in vs]
                if all(x.is_py for x in lv):
                    outs.append((s, py({v.t for v in vs})))
                    continue
                vs = lv
            ety = next(v.ty for v in vs if not v.is_py)
            r = self.empty_set(ety)
            for v in vs:
                r = self.set_add(r, v)
            outs.append((s, r))
        return outs

    def ev_Dict(self, n, st):
        if not n.keys:
            return [(st, Val(TDict(PY, PY), None, {"empty": True}))]
        if any(k is None for k in n.keys):
            raise Unsupported("dict unpacking in literal")
        outs = []
        for s, ks in self.ev_many(n.keys, st):
            for s2, vs in self.ev_many(n.values, s):
                # python-level dict of Vals (keys must be concrete)
                if all(k.is_py or z3.is_string_value(k.t) for k in ks):
                    outs.append((s2, py({self._pykey(k): v for k, v in zip(ks, vs)})))
                else:
                    # symbolic keys: a first-class dict value
                    kk = [k if not k.is_py else self.lift(k.t) for k in ks]
                    vv = [v if not v.is_py else self.lift(v.t) for v in vs]
                    if any(v.is_py for v in vv):
                        vv = [self.mk_seq([x if isinstance(x, Val) else self.lift(x) for x in v.t],
                                          next((x.ty for x in v.t if isinstance(x, Val)), PY)) if v.is_py and isinstance(v.t, list) else v
                              for v in vv]
                    d = self.empty_dict(kk[0].ty, vv[0].ty)
                    for k_, v_ in zip(kk, vv):
                        d = self.dict_set(d, k_, v_)
                    outs.append((s2, d))
        return outs

    def _pykey(self, k):
        if k.is_py:
            return k.t
        if z3.is_string_value(k.t):
            return k.t.as_string()
        return ("enum", str(k.t))

    def ev_JoinedStr(self, n, st):
        outs = [(st, [])]
        for part in n.values:
            nxt = []
            for s, acc in outs:
                if isinstance(part, ast.Constant):
                    nxt.append((s, acc + [z3.StringVal(part.value)]))
                else:
                    if part.conversion not in (-1, 115):
                        raise Unsupported("f-string conversion")
                    for s2, v in self.ev(part.value, s):
                        if part.format_spec is not None:
                            spec = ast.unparse(part.format_spec)
                            if v.is_py:
                                raise Unsupported("format spec on python object")
                            f = self.uf("fmt_" + re.sub(r"\W", "_", spec) + "_" + self.reg._sname(v.ty), [self.reg.sort(v.ty)], z3.StringSort())
                            nxt.append((s2, acc + [f(v.t)]))
                        else:
                            nxt.append((s2, acc + [self.to_str(v).t]))
            outs = nxt
        res = []
        for s, acc in outs:
            t = acc[0] if len(acc) == 1 else (z3.Concat(*acc) if acc else z3.StringVal(""))
            res.append((s, Val(STR, t)))
        return res

    def to_str(self, v: Val) -> Val:
        if v.ty.kind == "str":
            return v
        if v.is_py and isinstance(v.t, Exc):
            return Val(STR, z3.String(fresh_name("exc_str")))      # str(exception): an opaque message
        if v.is_py:
            if isinstance(v.t, (str, int, type(None))) or type(v.t).__str__ is not object.__str__:
                return Val(STR, z3.StringVal(str(v.t)))
            raise Unsupported(f"str() of python object {type(v.t)}")
        if v.ty.kind == "opt" and v.ty.args[0].kind in ("str", "int"):
            return Val(STR, z3.If(self.is_none(v), z3.StringVal("None"), self.to_str(self.unwrap(v)).t))
        if v.ty.kind == "int":
            return Val(STR, z3.IntToStr(v.t))  # valid for non-negative ints only
        f = self.uf("str_of_" + self.reg._sname(v.ty), [self.reg.sort(v.ty)], z3.StringSort())
        return Val(STR, f(v.t))

    # ---- operators ------------------------------------------------------------------
    def ev_UnaryOp(self, n, st):
        outs = []
        for s, v in self.ev(n.operand, st):
            if isinstance(n.op, ast.Not):
                outs.append((s, Val(BOOL, z3.Not(self.truth(v)))))
            elif isinstance(n.op, ast.USub):
                if v.is_py:
                    outs.append((s, self.lift(-v.t)))
                else:
                    outs.append((s, Val(INT, -v.t)))
            else:
                raise Unsupported("unary op")
        return outs

    def _boolop_fast(self, n, st):
        """and/or without forking when every operand evaluates purely (one outcome, no raise, no store change)
        under the assumption that the previous operands did not short-circuit."""
        is_and = isinstance(n.op, ast.And)
        mark, vmark = len(self.abrupt), len(self.vcs)
        cur = st.copy()
        vals = []
        for node in n.values:
            try:
                outs = self.ev(node, cur.copy())
            except NoOutcome:
                outs = []
            if len(self.abrupt) > mark or len(outs) != 1 or len(outs[0][0].pc) != len(cur.pc) \
                    or not self._same_store(outs[0][0], st) or len(self.vcs) != vmark:
                import os
                if os.environ.get("PYVC_DEBUG"):
                    print("boolop slow path:", ast.unparse(n)[:80], "abrupt", len(self.abrupt) - mark, "outs", len(outs),
                          "pc", [len(o[0].pc) for o in outs], len(cur.pc), "store", [self._same_store(o[0], st) for o in outs])
                del self.abrupt[mark:]
                del self.vcs[vmark:]
                return None
            v = outs[0][1]
            vals.append(v)
            t = self.truth(v)
            cur = cur.copy()
            cur.pc.append(t if is_and else z3.Not(t))
        if all(v.ty.kind == "bool" and not v.is_py for v in vals):
            ts = [v.t for v in vals]
            return [(st, Val(BOOL, z3.And(*ts) if is_and else z3.Or(*ts)))]
        try:
            res = vals[-1]
            for v in reversed(vals[:-1]):
                t = self.truth(v)
                res = self.ite(t, res, v) if is_and else self.ite(t, v, res)
        except Unsupported:
            if not self.spec_mode and not self.truth_only:
                return None
            # operands of different types in a specification (or under any()/all()): only the truth value is meaningful
            ts = [self.truth(v) for v in vals]
            res = Val(BOOL, z3.And(*ts) if is_and else z3.Or(*ts))
        return [(st, res)]

    def ev_BoolOp(self, n, st):
        fast = self._boolop_fast(n, st)
        if fast is not None:
            return fast
        is_and = isinstance(n.op, ast.And)
        outs = []
        work = [(st, None, 0)]
        # short-circuit, forking on each operand's truth value
        def go(s, idx):
            for s1, v in self.ev(n.values[idx], s):
                if idx == len(n.values) - 1:
                    outs.append((s1, v))
                    continue
                t, f = self.branch(s1, self.truth(v), "and" if is_and else "or")
                cont, stop = (t, f) if is_and else (f, t)
                if stop is not None:
                    outs.append((stop, v))
                if cont is not None:
                    go(cont, idx + 1)
        go(st, 0)
        # try to merge when evaluation was pure (keeps path count down)
        if len(outs) > 1 and all(o[0].env is not None for o in outs):
            same_state = all(self._same_store(o[0], outs[0][0]) for o in outs)
            if same_state:
                try:
                    v = self.merge(outs)
                    base = st.copy()
                    return [(base, v)]
                except Unsupported:
                    pass
        return outs

    def _same_store(self, a: State, b: State):
        if a.env.keys() != b.env.keys():
            return False
        for k in a.env:
            if a.env[k] is not b.env[k]:
                return False
        for k in a.heap.keys() & b.heap.keys():
            if a.heap[k] is not b.heap[k] and not a.heap[k].eq(b.heap[k]):
                return False
        for k in a.heap.keys() ^ b.heap.keys():
            arr = a.heap.get(k) if k in a.heap else b.heap.get(k)
            if not str(arr.decl().name()).startswith("heap0_"):   # lazily materialised entry array is not a write
                return False
        for k in a.ghost.keys() | b.ghost.keys():
            x, y = a.ghost.get(k), b.ghost.get(k)
            if x is y:
                continue
            if isinstance(x, Val) and isinstance(y, Val) and x.is_py and y.is_py and (x.t is y.t):
                continue
            if isinstance(x, dict) and isinstance(y, dict) and x == y:
                continue
            return False
        return True

    def ev_IfExp(self, n, st):
        outs = []
        for s, c in self.ev(n.test, st):
            t, f = self.branch(s, self.truth(c), "ifexp")
            sub = []
            if t is not None:
                sub += self.ev(n.body, t)
            if f is not None:
                sub += self.ev(n.orelse, f)
            if len(sub) > 1 and all(self._same_store(o[0], s) for o in sub):
                try:
                    outs.append((s, self.merge(sub)))
                    continue
                except Unsupported:
                    pass
            outs += sub
        return outs

    def ev_BinOp(self, n, st):
        outs = []
        for s, (a, b) in self.ev_many([n.left, n.right], st):
            outs += self.binop(s, n.op, a, b, n)
        return outs

    def binop(self, s, op, a, b, node=None):
        if a.is_py and b.is_py and not any(isinstance(x.t, (tuple, list, dict)) and self._has_val(x.t) for x in (a, b)):
            import operator as O
            f = {ast.Add: O.add, ast.Sub: O.sub, ast.Mult: O.mul, ast.BitOr: O.or_, ast.BitAnd: O.and_,
                 ast.Mod: O.mod, ast.FloorDiv: O.floordiv, ast.BitXor: O.xor, ast.Div: O.truediv}[type(op)]
            return [(s, self.lift(f(a.t, b.t)))]
        if a.is_py:
            a = self.lift_like(a, b.ty if b.ty.kind != "opt" else b.ty.args[0])
        if b.is_py:
            b = self.lift_like(b, a.ty if a.ty.kind != "opt" else a.ty.args[0])
        for which, v in (("a", a), ("b", b)):
            if v.ty.kind == "opt" and self.spec_mode:      # specifications are total (as for comparisons)
                if which == "a":
                    return self.binop(s, op, self.unwrap(a), b, node)
                return self.binop(s, op, a, self.unwrap(b), node)
            if v.ty.kind == "opt" or v.ty.kind == "none":
                isn = self.is_none(v)
                bad, ok = self.branch(s, isn, "none-operand")
                if bad is not None:
                    self.raise_(bad, TypeError, where=node)
                if ok is None:
                    return []
                if which == "a":
                    return self.binop(ok, op, self.unwrap(a), b, node)
                return self.binop(ok, op, a, self.unwrap(b), node)
        k = a.ty.kind
        if isinstance(op, ast.Add):
            if k == "int":
                return [(s, Val(INT, a.t + b.t))]
            if k == "str":
                return [(s, Val(STR, z3.Concat(a.t, b.t)))]
            if k == "seq":
                b = self.coerce(b, a.ty)
                return [(s, Val(a.ty, z3.Concat(a.t, b.t)))]
        if isinstance(op, ast.Sub):
            if k == "int":
                return [(s, Val(INT, a.t - b.t))]
            if k == "set":
                return [(s, self.set_diff(a, self.coerce(b, a.ty)))]
        if isinstance(op, ast.Mult) and k == "int" and b.ty.kind == "int":
            return [(s, Val(INT, a.t * b.t))]
        if isinstance(op, ast.BitOr):
            if k == "set":
                return [(s, self.set_union(a, self.coerce(b, a.ty)))]
            if k in ("ref", "data"):
                return self.call_method(s, a, "__or__", [b], {}, node)
        if isinstance(op, ast.BitAnd) and k == "set":
            return [(s, self.set_inter(a, self.coerce(b, a.ty)))]
        if isinstance(op, ast.BitXor) and k == "bool":
            return [(s, Val(BOOL, z3.Xor(a.t, b.t)))]
        if isinstance(op, ast.Div) and a.ty.kind == "abs":
            hook = self.binop_models.get(("/", a.ty.name))
            if hook is not None:
                return hook(self, s, a, b, node)
        if isinstance(op, ast.Mod) and k == "str":
            raise Unsupported("%-formatting")
        raise Unsupported(f"binop {type(op).__name__} on {a.ty}, {b.ty}")

    def _has_val(self, obj):
        if isinstance(obj, Val):
            return True
        if isinstance(obj, dict):
            return any(self._has_val(v) for v in obj.values())
        if isinstance(obj, (tuple, list)):
            return any(self._has_val(v) for v in obj)
        return False

    def ev_Compare(self, n, st):
        outs = []
        for s, vs in self.ev_many([n.left] + n.comparators, st):
            if any(isinstance(op, (ast.Lt, ast.LtE, ast.Gt, ast.GtE, ast.In, ast.NotIn)) for op in n.ops):
                forked = False
                for i, v in enumerate(vs):
                    if i == 0 and all(isinstance(op, (ast.In, ast.NotIn)) for op in n.ops):
                        continue      # the left operand of `in` may be None
                    if not v.is_py and v.ty.kind in ("opt", "none"):
                        if self.spec_mode and v.ty.kind == "opt":
                            vs[i] = self.unwrap(v)
                            continue
                        bad, ok = self.branch(s, self.is_none(v), "none-compare")
                        if bad is not None:
                            self.raise_(bad, TypeError, where=n)
                        if ok is None:
                            forked = True
                            break
                        s = ok
                        vs[i] = self.unwrap(v)
                if forked:
                    continue
            conds = []
            for op, a, b in zip(n.ops, vs, vs[1:]):
                conds.append(self.compare(op, a, b))
            c = conds[0] if len(conds) == 1 else z3.And(*conds)
            outs.append((s, Val(BOOL, c)))
        return outs

    def compare(self, op, a, b):
        if isinstance(op, ast.Eq):
            return self.eq(a, b)
        if isinstance(op, ast.NotEq):
            return z3.Not(self.eq(a, b))
        if isinstance(op, ast.Is):
            if b.ty.kind == "none" or (b.is_py and b.t is None):
                return self.is_none(a)
            if a.is_py and b.is_py:
                return z3.BoolVal(a.t is b.t)
            if a.is_py != b.is_py:
                return z3.BoolVal(False)
            raise Unsupported("`is` between symbolic values")
        if isinstance(op, ast.IsNot):
            return z3.Not(self.compare(ast.Is(), a, b))
        if isinstance(op, ast.In):
            return self.contains(b, a)
        if isinstance(op, ast.NotIn):
            return z3.Not(self.contains(b, a))
        if a.is_py and b.is_py:
            import operator as O
            f = {ast.Lt: O.lt, ast.LtE: O.le, ast.Gt: O.gt, ast.GtE: O.ge}[type(op)]
            return z3.BoolVal(f(a.t, b.t))
        if a.is_py:
            a = self.lift_like(a, b.ty)
        if b.is_py:
            b = self.lift_like(b, a.ty)
        if a.ty.kind == "opt" and a.ty.args[0].kind == "int":
            a = self.unwrap(a)   # TypeError on None is generated by the caller via not-none obligation
        if b.ty.kind == "opt" and b.ty.args[0].kind == "int":
            b = self.unwrap(b)
        if a.ty.kind == "int" and b.ty.kind == "int":
            return {ast.Lt: a.t < b.t, ast.LtE: a.t <= b.t, ast.Gt: a.t > b.t, ast.GtE: a.t >= b.t}[type(op)]
        if a.ty.kind == "set" and b.ty.kind == "set":
            if isinstance(op, ast.LtE):
                return self.set_subset(a, b)
            if isinstance(op, ast.GtE):
                return self.set_subset(b, a)
        if a.ty.kind == "str" and b.ty.kind == "str":
            lt = z3.StrLT if hasattr(z3, "StrLT") else None
            if isinstance(op, ast.Lt):
                return a.t < b.t
            if isinstance(op, ast.LtE):
                return a.t <= b.t
            if isinstance(op, ast.Gt):
                return b.t < a.t
            if isinstance(op, ast.GtE):
                return b.t <= a.t
        raise Unsupported(f"comparison {type(op).__name__} on {a.ty}, {b.ty}")

    def contains(self, container: Val, item: Val):
        k = container.ty.kind
        if container.meta and container.meta.get("empty"):
            return z3.BoolVal(False)
        if container.is_py:
            c = container.t
            if isinstance(c, dict) and not item.is_py and item.ty.kind == "str":
                keys = [z3.StringVal(x) for x in c.keys() if isinstance(x, str)]
                return z3.Or(*[item.t == x for x in keys]) if keys else z3.BoolVal(False)
            if item.is_py:
                return z3.BoolVal(item.t in c)
            if isinstance(c, (str,)):
                return z3.Contains(z3.StringVal(c), item.t)
            if isinstance(c, (tuple, list, set, frozenset)):
                alts = []
                for x in c:
                    xv = x if isinstance(x, Val) else self.lift(x)
                    alts.append(self.eq(xv, item))
                return z3.Or(*alts) if alts else z3.BoolVal(False)
            raise Unsupported(f"`in` on python object {type(c)}")
        if k == "str":
            item = self.lift_like(item, STR) if item.is_py else item
            return z3.Contains(container.t, item.t)
        if k == "set":
            return self.set_has(container, item)
        if k == "dict":
            return self.dict_has(container, item)
        if k == "seq":
            item = self.coerce(item, container.ty.args[0])
            return z3.Select(self.elems_of(container), item.t)   # membership through the element-set view
        if k == "tuple":
            return z3.Or(*[self.eq(self.tuple_get(container, i), item) for i in range(len(container.ty.args))])
        raise Unsupported(f"`in` on {container.ty}")

    # ---- subscripts and attributes ------------------------------------------------------
    def ev_Subscript(self, n, st):
        outs = []
        if isinstance(n.slice, ast.Slice):
            parts = [n.value] + [p for p in (n.slice.lower, n.slice.upper, n.slice.step) if p is not None]
            for s, vs in self.ev_many(parts, st):
                base = vs[0]
                it = iter(vs[1:])
                lo = next(it) if n.slice.lower is not None else None
                hi = next(it) if n.slice.upper is not None else None
                step = next(it) if n.slice.step is not None else None
                if base.ty.kind == "opt":        # None[...] raises TypeError
                    some, none = self.branch(s, z3.Not(self.is_none(base)), "slice-base")
                    if none is not None:
                        self.raise_(none, TypeError)
                    if some is None:
                        continue
                    s, base = some, self.unwrap(base)
                self._slice_pc = s.pc
                try:
                    outs.append((s, self.do_slice(base, lo, hi, step)))
                finally:
                    self._slice_pc = None
            return outs
        for s, (base, idx) in self.ev_many([n.value, n.slice], st):
            outs += self.subscript(s, base, idx, n)
        return outs

    def do_slice(self, base, lo, hi, step):
        if step is not None:
            if step.is_py and step.t == -1 and lo is None and hi is None:
                return self.reverse(base)
            raise Unsupported("slice step")
        if base.is_py and all(x is None or x.is_py for x in (lo, hi)):
            return self.lift(base.t[(lo.t if lo else None):(hi.t if hi else None)])
        if base.is_py:
            base = self.lift(base.t)
            if base.is_py:
                raise Unsupported("slicing python object with symbolic bounds")
        def tt(x):
            if x is None:
                return None
            if x.is_py:
                if x.t is None:
                    return None
                return z3.IntVal(x.t)
            return x.t
        if base.ty.kind not in ("str", "seq"):
            raise Unsupported(f"slice of {base.ty}")
        # a bound that may be None means "no bound" (text[:None] is the whole text)
        n = z3.Length(base.t)
        lo_t, hi_t = tt(lo), tt(hi)
        if lo is not None and not lo.is_py and lo.ty.kind == "opt":
            lo_t = z3.If(self.is_none(lo), z3.IntVal(0), self.norm_index(self.unwrap(lo).t, n))
            lo_t = ("raw", lo_t)
        if hi is not None and not hi.is_py and hi.ty.kind == "opt":
            hi_t = z3.If(self.is_none(hi), n, self.norm_index(self.unwrap(hi).t, n))
            hi_t = ("raw", hi_t)
        return self.slice(base, lo_t, hi_t)

    def reverse(self, v: Val) -> Val:
        if v.is_py:
            return self.lift(v.t[::-1])
        if v.ty.kind == "str":
            if z3.is_string_value(v.t):
                return Val(STR, z3.StringVal(v.t.as_string()[::-1]))
            f = self.uf("str_reverse", [z3.StringSort()], z3.StringSort())
            r = f(v.t)
            self.axioms_for_reverse(v.t, r)
            return Val(STR, r)
        raise Unsupported("reverse of non-string")

    def axioms_for_reverse(self, s, r):
        # minimal, sound facts about reversal: same length; empty iff empty; length-1 strings are fixed
        self.axioms.append(z3.Length(r) == z3.Length(s))
        self.axioms.append(z3.Implies(z3.Length(s) <= 1, r == s))

    def subscript(self, s, base, idx, node):
        if base.is_py and idx.is_py:
            try:
                return [(s, self.lift(base.t[idx.t]))]
            except (IndexError, KeyError) as e:
                self.raise_(s, type(e), where=node)
                return []
        if base.is_py and isinstance(base.t, dict):
            # python-level dict with constant keys, symbolic key
            key = idx
            outs = []
            rest = s
            for k, v in base.t.items():
                kv = self.lift(k) if not isinstance(k, tuple) else None
                if kv is None:
                    raise Unsupported("dict key kind")
                t, f = self.branch(rest, self.eq(kv, key), "dictkey")
                if t is not None:
                    outs.append((t, v if isinstance(v, Val) else self.lift(v)))
                if f is None:
                    return outs
                rest = f
            self.raise_(rest, KeyError, where=node)
            return outs
        if base.is_py and isinstance(base.t, (tuple, list)):
            raise Unsupported("symbolic index into python sequence")
        k = base.ty.kind
        if k in ("abs", "ref", "data") and base.ty.name in self.subscript_models:
            return self.subscript_models[base.ty.name](self, s, base, idx, node)
        if k == "tuple":
            if not idx.is_py and z3.is_int_value(idx.t):
                idx = py(idx.t.as_long())
            if not idx.is_py:
                raise Unsupported("symbolic tuple index")
            return [(s, self.tuple_get(base, idx.t))]
        if k in ("str", "seq") and self.spec_mode:
            i = z3.IntVal(idx.t) if idx.is_py else z3.simplify(idx.t)     # `-1` arrives as a unary minus application
            n = z3.Length(base.t)
            if z3.is_int_value(i):
                pos = i if i.as_long() >= 0 else n + i
            else:
                pos = idx.t        # symbolic indices in specifications are always guarded by 0 <= j (kept as written)
            return [(s, self.seq_nth(base, pos))]   # total in specifications
        if k == "dict" and self.spec_mode:
            return [(s, self.dict_get(base, idx))]
        if k == "opt" and self.spec_mode:
            return self.subscript(s, self.unwrap(base), idx, node)
        if k in ("str", "seq"):
            i = z3.IntVal(idx.t) if idx.is_py else z3.simplify(idx.t)
            n = z3.Length(base.t)
            ok, bad = self.branch(s, z3.And(i >= -n, i < n), "index")
            if bad is not None:
                self.raise_(bad, IndexError, where=node)
            if ok is None:
                return []
            if z3.is_int_value(i) and i.as_long() >= 0:
                pos = i
            elif z3.is_int_value(i):
                pos = n + i
            else:
                pos = z3.If(i < 0, n + i, i)
            return [(ok, self.seq_nth(base, pos))]
        if k == "dict" and base.ty.name == "dd":
            # defaultdict(list): a missing key reads as the empty list and is inserted
            vty = base.ty.args[1]
            if vty.kind != "seq":
                raise Unsupported("defaultdict with a non-list factory")
            has = self.dict_has(base, idx)
            val = self.ite(has, self.dict_get(base, idx), Val(vty, z3.Empty(self.reg.sort(vty))))
            lv = self._lvalue(node.value) if node is not None and hasattr(node, "value") else None
            if lv is not None and not self.spec_mode:
                self.store_lvalue(s, lv, self.dict_set(base, idx, val))
            return [(s, val)]
        if k == "dict":
            has = self.dict_has(base, idx)
            ok, bad = self.branch(s, has, "key")
            if bad is not None:
                self.raise_(bad, KeyError, where=node)
            return [(ok, self.dict_get(base, idx))] if ok is not None else []
        if k == "opt":
            raise Unsupported("subscript of Optional without a None test")
        raise Unsupported(f"subscript of {base.ty}")

    def ev_Attribute(self, n, st):
        outs = []
        for s, base in self.ev(n.value, st):
            outs += self.getattr(s, base, n.attr, n)
        return outs

    def ev_Lambda(self, n, st):
        mod = st.ghost.get("__module__")
        return [(st, py(Closure(n, (st.env, st.closure), mod.t if mod else None, "<lambda>")))]

    def ev_Starred(self, n, st):
        raise Unsupported("starred expression")
