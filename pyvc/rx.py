"""Python `re` patterns -> z3 regular languages (DESIGN 3.3).  The parse tree comes from the interpreter's own
re._parser; character categories (\\s \\d \\w) are enumerated from the running `re`, not from documentation.
Code points above 0x2FFFF are outside the solvers' alphabet (recorded assumption)."""
from __future__ import annotations

import re
import re._parser as sre_parse
import re._constants as C
import functools
import z3

MAXCHAR = 0x2FFFF


class RxUnsupported(Exception):
    pass


def S():
    return z3.ReSort(z3.StringSort())


def ch(c):
    return z3.Re(z3.StringVal(c if isinstance(c, str) else chr(c)))


def rng(lo, hi):
    if lo == hi:
        return ch(lo)
    return z3.Range(z3.StringVal(chr(lo)), z3.StringVal(chr(hi)))


def anychar():
    return z3.AllChar(S())


def full():
    return z3.Full(S())


def empty():
    return z3.Empty(S())


def eps():
    return z3.Re(z3.StringVal(""))


def union(parts):
    parts = list(parts)
    if not parts:
        return empty()
    if len(parts) == 1:
        return parts[0]
    return z3.Union(*parts)


def concat(parts):
    parts = [p for p in parts]
    if not parts:
        return eps()
    if len(parts) == 1:
        return parts[0]
    return z3.Concat(*parts)


@functools.lru_cache(maxsize=None)
def category_ranges(cat):
    """Exact code-point set of a category in THIS interpreter's re, as sorted (lo, hi) ranges up to MAXCHAR."""
    pat = {C.CATEGORY_DIGIT: r"\d", C.CATEGORY_NOT_DIGIT: r"\D", C.CATEGORY_SPACE: r"\s", C.CATEGORY_NOT_SPACE: r"\S",
           C.CATEGORY_WORD: r"\w", C.CATEGORY_NOT_WORD: r"\W"}.get(cat)
    if pat is None:
        raise RxUnsupported(f"category {cat}")
    rx = re.compile(pat)
    out, start = [], None
    for cp in range(MAXCHAR + 2):
        hit = cp <= MAXCHAR and rx.fullmatch(chr(cp)) is not None
        if hit and start is None:
            start = cp
        elif not hit and start is not None:
            out.append((start, cp - 1))
            start = None
    return tuple(out)


def class_of(items, dotall=True):
    """character class node list -> RegLan of single characters"""
    negate = False
    parts = []
    for op, av in items:
        if op is C.NEGATE:
            negate = True
        elif op is C.LITERAL:
            parts.append(ch(av))
        elif op is C.RANGE:
            parts.append(rng(av[0], min(av[1], MAXCHAR)))
        elif op is C.CATEGORY:
            parts.append(union(rng(a, b) for a, b in category_ranges(av)))
        else:
            raise RxUnsupported(f"class item {op}")
    u = union(parts)
    if negate:
        return z3.Intersect(anychar(), z3.Complement(u))
    return u


class Lang:
    """Translation of one compiled pattern."""

    def __init__(self, pattern, flags=0):
        if isinstance(pattern, re.Pattern):
            flags = pattern.flags
            pattern = pattern.pattern
        self.pattern, self.flags = pattern, flags
        if flags & re.IGNORECASE:
            raise RxUnsupported("IGNORECASE")
        self.tree = sre_parse.parse(pattern, flags)
        self.dotall = bool(flags & re.DOTALL)
        self.multiline = bool(flags & re.MULTILINE)

    # -- body without edge anchors ---------------------------------------------------------------
    def node(self, op, av):
        if op is C.LITERAL:
            if av > MAXCHAR:
                raise RxUnsupported("literal above solver alphabet")
            return ch(av)
        if op is C.NOT_LITERAL:
            return z3.Intersect(anychar(), z3.Complement(ch(av)))
        if op is C.ANY:
            return anychar() if self.dotall else z3.Intersect(anychar(), z3.Complement(ch("\n")))
        if op is C.IN:
            return class_of(av)
        if op is C.CATEGORY:
            return union(rng(a, b) for a, b in category_ranges(av))
        if op is C.BRANCH:
            return union(self.seq(list(alt)) for alt in av[1])
        if op is C.SUBPATTERN:
            return self.seq(list(av[3]))
        if op in (C.MAX_REPEAT, C.MIN_REPEAT, getattr(C, "POSSESSIVE_REPEAT", None)):
            lo, hi, sub = av
            r = self.seq(list(sub))
            if lo == 0 and hi is C.MAXREPEAT:
                return z3.Star(r)
            if lo == 1 and hi is C.MAXREPEAT:
                return z3.Plus(r)
            if lo == 0 and hi == 1:
                return z3.Option(r)
            if hi is C.MAXREPEAT:
                return concat([z3.Loop(r, lo, lo), z3.Star(r)])
            return z3.Loop(r, lo, hi)
        if op is C.AT:
            raise RxUnsupported(f"anchor {av} in the middle of a pattern")
        raise RxUnsupported(f"regex node {op}")

    def seq(self, nodes):
        return concat([self.node(op, av) for op, av in nodes])

    # -- subject languages of match / search / fullmatch ------------------------------------------------
    def alternatives(self):
        """top-level alternatives as (has_caret, core RegLan, has_dollar).  The parser factors a common prefix (e.g. '^')
        out of a top-level alternation, so anchors are collected around an inner BRANCH as well."""
        def strip(alt):
            caret = dollar = False
            alt = list(alt)
            while alt and alt[0][0] is C.AT and alt[0][1] in (C.AT_BEGINNING, C.AT_BEGINNING_STRING):
                caret = True
                alt = alt[1:]
            while alt and alt[-1][0] is C.AT and alt[-1][1] in (C.AT_END, C.AT_END_STRING):
                dollar = "$" if alt[-1][1] is C.AT_END else "Z"
                alt = alt[:-1]
            return caret, alt, dollar

        def expand(alt, caret0=False, dollar0=False):
            caret, body, dollar = strip(alt)
            caret, dollar = caret or caret0, dollar or dollar0
            if len(body) == 1 and body[0][0] is C.BRANCH:
                out = []
                for sub in body[0][1][1]:
                    out += expand(list(sub), caret, dollar)
                return out
            return [(caret, body, dollar)]

        out = []
        for caret, body, dollar in expand(list(self.tree)):
            if self.multiline and (caret or dollar):
                raise RxUnsupported("MULTILINE anchors: use line-level translation")
            out.append((caret, self.seq(body), dollar))
        return out

    def _tail(self, dollar):
        if dollar == "$":
            return z3.Option(ch("\n"))       # `$` matches at the end or just before a final newline
        if dollar == "Z":
            return eps()
        return full()

    def match_lang(self):
        return union(concat([core, self._tail(d)]) for _, core, d in self.alternatives())

    def search_lang(self):
        return union(concat([(eps() if c else full()), core, self._tail(d)]) for c, core, d in self.alternatives())

    def fullmatch_lang(self):
        return union(core for _, core, _ in self.alternatives())


def subset_query(a, b):
    """-> (solver, x): sat iff some string is in a but not in b (x is the witness)"""
    x = z3.String("w")
    s = z3.Solver()
    s.add(z3.InRe(x, a), z3.Not(z3.InRe(x, b)))
    return s, x
