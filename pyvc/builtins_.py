"""Built-in functions, methods of built-in types, comprehensions, spec special forms.
Each model states its semantic equation; they are cross-checked against CPython by
pyvc/crosscheck.py."""
from __future__ import annotations

import ast
import inspect
import z3

from .state import Val, py, Unsupported, Exc, State, fresh_name
from .types import INT, BOOL, STR, NONE, PY, TOpt, TSet, TDict, TSeq, TTuple, Ty

# CPython's str.strip() whitespace (str.isspace) -- enumerated natively, not from documentation
import sys
_WS = "".join(chr(c) for c in range(sys.maxunicode + 1) if chr(c).isspace() and c <= 0x2FFFF)


class Instance:
    def __init__(self, st, bound, guard):
        self.st, self.bound, self.guard = st, bound, guard


class BuiltinsMixin:
    def begin_binder(self):
        if self.binder_depth == 0:
            self._bcount = 0

    def bound_const(self, prefix, sort):
        """A constant to be abstracted by an enclosing binder.  Names are deterministic per top-level expression
        (numbered in evaluation order) so that the same specification evaluated twice yields identical terms."""
        k = self._bcount
        self._bcount += 1
        return z3.Const(f"bv{k}_{sort}", sort)     # positional name: alpha-equivalent formulas become identical terms

    # ---- builtin functions --------------------------------------------------------------
    def call_builtin(self, s, fn, args, kwargs, node):
        name = getattr(fn, "__name__", str(fn))
        if all(a.is_py and not self._has_val(a.t) for a in args) and all(v.is_py for v in kwargs.values()) \
                and name in _PURE_BUILTINS:
            try:
                return [(s, self.lift(fn(*[a.t for a in args], **{k: v.t for k, v in kwargs.items()})))]
            except Exception as e:  # concrete evaluation raised: that is the semantics
                self.raise_(s, type(e), where=node)
                return []
        m = getattr(self, "bi_" + name, None)
        if m is None:
            raise Unsupported(f"builtin {name}")
        return m(s, args, kwargs, node)

    def bi_len(self, s, args, kw, node):
        v = args[0]
        if v.meta and v.meta.get("empty") and v.t is None:
            return [(s, self.lift(0))]
        if v.is_py:
            return [(s, self.lift(len(v.t)))]
        if v.ty.kind in ("str", "seq"):
            return [(s, Val(INT, z3.Length(v.t)))]
        if v.ty.kind == "tuple":
            return [(s, self.lift(len(v.ty.args)))]
        if v.ty.kind in ("set", "dict"):
            setv = v if v.ty.kind == "set" else Val(TSet(v.ty.args[0]), self.dict_dom(v))
            return [(s, self.card(setv))]
        raise Unsupported(f"len of {v.ty}")

    def card(self, setv: Val) -> Val:
        f = self.uf("card_" + self.reg._sname(setv.ty), [self.reg.sort(setv.ty)], z3.IntSort())
        c = f(setv.t)
        e = z3.Const(fresh_name("ce"), self.reg.sort(setv.ty.args[0]))
        self.axioms.append(c >= 0)
        self.axioms.append((c == 0) == (setv.t == self.empty_set(setv.ty.args[0]).t))
        return Val(INT, c)

    def bi_bool(self, s, args, kw, node):
        if not args:
            return [(s, self.lift(False))]
        return [(s, Val(BOOL, self.truth(args[0])))]

    def bi_str(self, s, args, kw, node):
        if not args:
            return [(s, self.lift(""))]
        return [(s, self.to_str(args[0]))]

    def bi_repr(self, s, args, kw, node):
        v = args[0]
        f = self.uf("repr_of_" + self.reg._sname(v.ty), [self.reg.sort(v.ty)], z3.StringSort()) if not v.is_py else None
        if f is None:
            return [(s, self.lift(repr(v.t)))]
        return [(s, Val(STR, f(v.t)))]

    def bi_isinstance(self, s, args, kw, node):
        v, cls = args
        if v.is_py and cls.is_py and not isinstance(v.t, Exc):
            return [(s, self.lift(isinstance(v.t, cls.t)))]
        classes = cls.t if isinstance(cls.t, tuple) else (cls.t,)
        classes = tuple(c.t if isinstance(c, Val) else c for c in classes)
        if v.is_py and isinstance(v.t, Exc):
            return [(s, self.lift(issubclass(v.t.cls, classes)))]
        hook = self.isinstance_hooks.get(v.ty.name if v.ty.name else v.ty.kind)
        if hook is not None:
            return [(s, hook(self, s, v, classes))]
        k = v.ty.kind
        pyk = {"str": str, "int": int, "bool": bool, "set": set, "dict": dict, "seq": list, "none": type(None)}
        if k in pyk:
            return [(s, self.lift(any(issubclass(pyk[k], c) for c in classes)))]
        if k == "opt":
            inner = v.ty.args[0]
            if inner.kind in pyk:
                hit = any(issubclass(pyk[inner.kind], c) for c in classes)
                nonehit = any(c is type(None) for c in classes)
                isn = self.is_none(v)
                return [(s, Val(BOOL, z3.If(isn, z3.BoolVal(nonehit), z3.BoolVal(hit))))]
            if inner.kind in ("ref", "data", "enum") and self.reg.pyclass.get(inner.name) is not None:
                hit = issubclass(self.reg.pyclass[inner.name], classes)
                nonehit = any(c is type(None) for c in classes)
                return [(s, Val(BOOL, z3.If(self.is_none(v), z3.BoolVal(nonehit), z3.BoolVal(hit))))]
            if inner.kind == "abs" and all(c in (set, frozenset, list, tuple, dict, str, int, bool) for c in classes):
                return [(s, self.lift(False))]      # an external object (Path, ...) is none of the builtin containers
        if k == "abs" and all(c in (set, frozenset, list, tuple, dict, str, int, bool) for c in classes):
            return [(s, self.lift(False))]
        if k in ("ref", "data", "enum"):
            real = self.reg.pyclass.get(v.ty.name)
            if real is not None:
                return [(s, self.lift(issubclass(real, classes)))]
        raise Unsupported(f"isinstance on {v.ty}")

    def bi_set(self, s, args, kw, node):
        if not args:
            return [(s, Val(TSet(PY), None, {"empty": True}))]
        v = args[0]
        if v.is_py:
            if isinstance(v.t, (list, tuple, set, frozenset)):
                items = [x if isinstance(x, Val) else self.lift(x) for x in v.t]
                if not items:
                    return [(s, Val(TSet(PY), None, {"empty": True}))]
                if all(i.is_py for i in items):
                    return [(s, py(set(i.t for i in items)))]
                r = self.empty_set(next(i.ty for i in items if not i.is_py))
                for i in items:
                    r = self.set_add(r, i)
                return [(s, r)]
            if isinstance(v.t, dict):
                return [(s, py(set(v.t.keys())))]
            raise Unsupported("set() of python object")
        if v.ty.kind == "set":
            return [(s, v)]
        if v.ty.kind == "seq":
            if v.meta and v.meta.get("empty"):
                return [(s, Val(TSet(PY), None, {"empty": True}))]
            return [(s, self.seq_elems(v))]
        if v.ty.kind == "dict":
            return [(s, Val(TSet(v.ty.args[0]), self.dict_dom(v)))]
        if v.ty.kind == "tuple":
            r = self.empty_set(v.ty.args[0])
            for i in range(len(v.ty.args)):
                r = self.set_add(r, self.tuple_get(v, i))
            return [(s, r)]
        raise Unsupported(f"set() of {v.ty}")

    bi_frozenset = bi_set

    def bi_list(self, s, args, kw, node):
        if not args:
            return [(s, Val(TSeq(PY), None, {"empty": True}))]
        v = args[0]
        if v.is_py:
            return [(s, py(list(v.t)))]
        if v.ty.kind == "seq":
            return [(s, Val(v.ty, v.t))]
        if v.ty.kind in ("set", "dict"):
            return [(s, self.enumeration_of(v))]
        if v.ty.kind == "tuple":
            return [(s, self.coerce(v, TSeq(v.ty.args[0])))]
        raise Unsupported(f"list() of {v.ty}")

    bi_tuple = bi_list

    def enumeration_of(self, v: Val, sorted_=False) -> Val:
        """A sequence enumerating a set (or dict keys) in an unspecified order: elems(seq) == set, no duplicates."""
        setv = v if v.ty.kind == "set" else Val(TSet(v.ty.args[0]), self.dict_dom(v))
        et = setv.ty.args[0]
        f = self.uf(("sorted_" if sorted_ else "enum_") + self.reg._sname(setv.ty), [self.reg.sort(setv.ty)],
                    self.reg.sort(TSeq(et)))
        r = Val(TSeq(et), f(setv.t))
        el = self.seq_elems(r)
        self.axioms.append(el.t == setv.t)
        self.axioms.append((z3.Length(r.t) == 0) == (setv.t == self.empty_set(et).t))
        return r

    def bi_sorted(self, s, args, kw, node):
        v = args[0]
        if v.is_py and not self._has_val(v.t) and all(x.is_py for x in kw.values()):
            return [(s, self.lift(sorted(v.t)))]
        if v.is_py:
            v = self.bi_list(s, [v], {}, node)[0][1]
            if v.is_py:
                # python list of Vals: order is unspecified by this model -> abstract permutation
                items = [x if isinstance(x, Val) else self.lift(x) for x in v.t]
                if len(items) <= 1:
                    return [(s, py(items))]
                v = self.mk_seq(items, items[0].ty)
        if v.ty.kind in ("set", "dict"):
            return [(s, self.enumeration_of(v, sorted_=True))]
        if v.ty.kind == "seq":
            et = v.ty.args[0]
            f = self.uf("sortedseq_" + self.reg._sname(v.ty), [self.reg.sort(v.ty)], self.reg.sort(v.ty))
            r = Val(v.ty, f(v.t))
            self.axioms.append(z3.Length(r.t) == z3.Length(v.t))
            self.axioms.append(self.seq_elems(r).t == self.seq_elems(v).t)
            if et.kind == "str" and "key" not in kw:
                j = z3.Int(fresh_name("sj"))
                self.axioms.append(z3.ForAll([j], z3.Implies(z3.And(0 <= j, j + 1 < z3.Length(r.t)), r.t[j] <= r.t[j + 1])))
            return [(s, r)]
        raise Unsupported(f"sorted of {v.ty}")

    def bi_reversed(self, s, args, kw, node):
        v = args[0]
        if v.is_py:
            return [(s, py(list(reversed(v.t))))]
        if v.ty.kind == "seq":
            f = self.uf("revseq_" + self.reg._sname(v.ty), [self.reg.sort(v.ty)], self.reg.sort(v.ty))
            r = Val(v.ty, f(v.t), {"reversed_of": v})
            n = z3.Length(v.t)
            j = z3.Int(fresh_name("rj"))
            self.axioms.append(z3.Length(r.t) == n)
            self.axioms.append(z3.ForAll([j], z3.Implies(z3.And(0 <= j, j < n), r.t[j] == v.t[n - 1 - j])))
            self.axioms.append(self.elems_of(r) == self.elems_of(v))     # same elements
            return [(s, r)]
        raise Unsupported(f"reversed of {v.ty}")

    def bi_any(self, s, args, kw, node):
        return self._anyall(s, args[0], True)

    def bi_all(self, s, args, kw, node):
        return self._anyall(s, args[0], False)

    def _anyall(self, s, v, is_any):
        self.begin_binder()
        if v.is_py:
            items = [x if isinstance(x, Val) else self.lift(x) for x in v.t]
            ts = [self.truth(i) for i in items]
            if not ts:
                return [(s, self.lift(not is_any))]
            return [(s, Val(BOOL, z3.Or(*ts) if is_any else z3.And(*ts)))]
        if v.ty.kind == "tuple":
            ts = [self.truth(self.tuple_get(v, i)) for i in range(len(v.ty.args))]
            return [(s, Val(BOOL, z3.Or(*ts) if is_any else z3.And(*ts)))]
        if v.ty.kind == "seq":
            j = self.bound_const("aj", z3.IntSort())
            body = self.truth(Val(v.ty.args[0], v.t[j]))
            rng = z3.And(0 <= j, j < z3.Length(v.t))
            q = z3.Exists([j], z3.And(rng, body)) if is_any else z3.ForAll([j], z3.Implies(rng, body))
            return [(s, Val(BOOL, q))]
        if v.ty.kind == "set":
            e = self.bound_const("ae", self.reg.sort(v.ty.args[0]))
            body = self.truth(Val(v.ty.args[0], e))
            q = z3.Exists([e], z3.And(v.t[e], body)) if is_any else z3.ForAll([e], z3.Implies(v.t[e], body))
            return [(s, Val(BOOL, q))]
        raise Unsupported(f"any/all of {v.ty}")

    def bi_min(self, s, args, kw, node):
        return self._minmax(s, args, True)

    def bi_max(self, s, args, kw, node):
        return self._minmax(s, args, False)

    def _minmax(self, s, args, is_min):
        if len(args) == 2 and all(a.ty.kind == "int" or (a.is_py and isinstance(a.t, int)) for a in args):
            a, b = [self.lift_like(x, INT) if x.is_py else x for x in args]
            return [(s, Val(INT, z3.If((a.t <= b.t) if is_min else (a.t >= b.t), a.t, b.t)))]
        v = args[0]
        if len(args) == 1 and not v.is_py and v.ty.kind == "seq" and v.ty.args[0].kind in ("str", "int"):
            et = v.ty.args[0]
            if self.spec_mode:       # specifications are total: min/max of an empty sequence is some value
                nonempty, empty = s, None
            else:
                nonempty, empty = self.branch(s, z3.Length(v.t) > 0, "minmax")
            if empty is not None:
                self.raise_(empty, ValueError)
            if nonempty is None:
                return []
            # a function of the sequence (the same sequence has the same minimum), pinned down by the two axioms below
            f = self.uf(("seq_min_" if is_min else "seq_max_") + et.kind, [v.t.sort()], self.reg.sort(et))
            r = Val(et, f(v.t))
            j = z3.Int(fresh_name("mj"))
            rng = z3.And(0 <= j, j < z3.Length(v.t))
            nonempty.assume(z3.Implies(z3.Length(v.t) > 0, z3.Contains(v.t, z3.Unit(r.t))))
            nonempty.assume(z3.ForAll([j], z3.Implies(rng, (r.t <= v.t[j]) if is_min else (v.t[j] <= r.t))))
            return [(nonempty, r)]
        raise Unsupported("min/max form")

    def bi_enumerate(self, s, args, kw, node):
        v = args[0]
        if v.is_py:
            return [(s, py([(self.lift(i), x if isinstance(x, Val) else self.lift(x)) for i, x in enumerate(v.t)]))]
        return [(s, py(("enumerate", v)))]

    def bi_getattr(self, s, args, kw, node):
        obj, name = args[0], args[1]
        if not name.is_py and z3.is_string_value(name.t):
            name = py(name.t.as_string())
        if not name.is_py:
            raise Unsupported("getattr with symbolic name")
        mark = len(self.abrupt)
        outs = self.getattr(s, obj, name.t, node)
        if len(args) == 3:
            for st2 in self.abrupt[mark:]:
                if st2.flow[1].cls is AttributeError:
                    st2.flow = None
                    outs.append((st2, args[2]))
            self.abrupt[mark:] = [x for x in self.abrupt[mark:] if x.flow is not None]
        return outs

    def bi_hasattr(self, s, args, kw, node):
        obj, name = args
        if obj.is_py:
            return [(s, self.lift(hasattr(obj.t, name.t)))]
        if name.t == "__iter__":
            return [(s, self.lift(obj.ty.kind in ("str", "seq", "set", "dict", "tuple")))]
        raise Unsupported("hasattr")

    def bi_range(self, s, args, kw, node):
        a = [x.t if not x.is_py else z3.IntVal(x.t) for x in args]
        lo, hi = (z3.IntVal(0), a[0]) if len(a) == 1 else (a[0], a[1])
        return [(s, py(("range", lo, hi)))]

    def bi_print(self, s, args, kw, node):
        return [(s, Val(NONE, None))]

    def bi_dict(self, s, args, kw, node):
        if not args:
            return [(s, Val(TDict(PY, PY), None, {"empty": True}))]
        v = args[0]
        if v.is_py or v.ty.kind == "dict":
            return [(s, v)]
        raise Unsupported("dict()")

    def bi_int(self, s, args, kw, node):
        raise Unsupported("int() of symbolic value")

    def bi_map(self, s, args, kw, node):
        f, v = args[0], args[1]
        if v.is_py and isinstance(v.t, (list, tuple)):
            res = []
            outs = [(s, [])]
            for item in v.t:
                item = item if isinstance(item, Val) else self.lift(item)
                nxt = []
                for s2, acc in outs:
                    for s3, r in self.call(s2, f, [item], {}, node):
                        nxt.append((s3, acc + [r]))
                outs = nxt
            return [(s2, py(acc)) for s2, acc in outs]
        if v.ty.kind in ("seq", "set"):
            return [(s, self.map_collection(s, f, v, node))]
        raise Unsupported("map over this collection")

    def map_collection(self, s, f, v, node):
        """{f(x) | x in v} for sets, [f(x) ...] for seqs, via a total uninterpreted image of the pure callee.  The image
        is a function of the collection (canonical name from the mapped term), so the same map over the same collection is
        the same term in code and specification."""
        import hashlib as _h
        et = v.ty.args[0]
        x0 = z3.Const(fresh_name("mx"), self.reg.sort(et))
        outs = self.call(s.copy(), f, [Val(et, x0)], {}, node)
        img = self.merge(outs)
        canon = z3.Const("mapx", self.reg.sort(et))
        tag = _h.md5(z3.substitute(img.t, (x0, canon)).sexpr().encode()).hexdigest()[:8]
        x = z3.Const("mx_" + tag, self.reg.sort(et))
        body_x = z3.substitute(img.t, (x0, x))
        rty = TSeq(img.ty) if v.ty.kind == "seq" else TSet(img.ty)
        r = Val(rty, self.uf("image_" + tag, [v.t.sort()], self.reg.sort(rty))(v.t))
        key = ("map", r.t.get_id())
        if key in self._strip_done:
            return r
        self._strip_done.add(key)
        if v.ty.kind == "seq":
            j = z3.Int("mj_" + tag)
            self.axioms.append(z3.Length(r.t) == z3.Length(v.t))
            body = z3.substitute(img.t, (x0, v.t[j]))
            self.axioms.append(z3.ForAll([j], z3.Implies(z3.And(0 <= j, j < z3.Length(v.t)), r.t[j] == body)))
            return r
        y = z3.Const("my_" + tag, self.reg.sort(img.ty))
        self.axioms.append(z3.ForAll([x], z3.Implies(v.t[x], r.t[body_x])))
        self.axioms.append(z3.ForAll([y], z3.Implies(r.t[y], z3.Exists([x], z3.And(v.t[x], body_x == y)))))
        return r

    # ---- methods of built-in types -----------------------------------------------------------
    def builtin_method(self, s, bm, args, kw, node):
        recv, name = bm.recv, bm.name
        if recv.is_py and all(a.is_py and not self._has_val(a.t) for a in args) and not self._has_val(recv.t) \
                and name not in ("add", "append", "update", "extend", "remove", "setdefault", "pop", "sort", "discard"):
            try:
                return [(s, self.lift(getattr(recv.t, name)(*[a.t for a in args], **{k: v.t for k, v in kw.items()})))]
            except Exception as e:
                self.raise_(s, type(e), where=node)
                return []
        if recv.is_py:
            lv = self.lift(recv.t)
            if lv.is_py:
                return self.py_container_method(s, bm, args, kw, node)
            recv = lv
        k = recv.ty.kind
        m = getattr(self, f"m_{k}_{name}", None)
        if m is None:
            raise Unsupported(f"method {k}.{name}")
        return m(s, recv, args, kw, node, bm)

    def py_container_method(self, s, bm, args, kw, node):
        recv, name = bm.recv, bm.name
        c = recv.t
        if isinstance(c, dict):
            if name == "get":
                key = args[0]
                dflt = args[1] if len(args) > 1 else Val(NONE, None)
                if key.is_py:
                    v = c.get(key.t, dflt)
                    return [(s, v if isinstance(v, Val) else self.lift(v))]
                outs, rest = [], s
                for k2, v in c.items():
                    t, f = self.branch(rest, self.eq(self.lift(k2), key), "dget")
                    if t is not None:
                        outs.append((t, v if isinstance(v, Val) else self.lift(v)))
                    if f is None:
                        return outs
                    rest = f
                outs.append((rest, dflt))
                return outs
            if name == "items":
                return [(s, py([(self.lift(k2), v if isinstance(v, Val) else self.lift(v)) for k2, v in c.items()]))]
            if name == "values":
                return [(s, py([v if isinstance(v, Val) else self.lift(v) for v in c.values()]))]
            if name == "keys":
                return [(s, py(list(c.keys())))]
            if name == "pop":
                key = args[0].t if args[0].is_py else args[0].t.as_string()
                new = dict(c)
                v = new.pop(key)
                self.store_lvalue(s, bm.lv, py(new))
                return [(s, v if isinstance(v, Val) else self.lift(v))]
            if name == "copy":
                return [(s, py(dict(c)))]
        if isinstance(c, list):
            if name == "append":
                self.store_lvalue(s, bm.lv, py(c + [args[0]]))
                return [(s, Val(NONE, None))]
            if name == "copy":
                return [(s, py(list(c)))]
        if isinstance(c, (set, frozenset)) and name in ("intersection", "union") and not args[0].is_py:
            sym = self.build_collection(c, args[0].ty if args[0].ty.kind == "set" else TSet(args[0].ty.args[0]))
            return self.builtin_method(s, type(bm)(sym, name), args, kw, node)
        raise Unsupported(f"method {type(c).__name__}.{name} on python-level container")

    # -- str
    def _sarg(self, a):
        return self.lift_like(a, STR) if a.is_py else a

    def m_str_startswith(self, s, r, args, kw, node, bm):
        a = args[0]
        if a.is_py and isinstance(a.t, tuple):
            return [(s, Val(BOOL, z3.Or(*[z3.PrefixOf(z3.StringVal(x), r.t) for x in a.t])))]
        return [(s, Val(BOOL, z3.PrefixOf(self._sarg(a).t, r.t)))]

    def m_str_endswith(self, s, r, args, kw, node, bm):
        a = args[0]
        if a.is_py and isinstance(a.t, tuple):
            return [(s, Val(BOOL, z3.Or(*[z3.SuffixOf(z3.StringVal(x), r.t) for x in a.t])))]
        return [(s, Val(BOOL, z3.SuffixOf(self._sarg(a).t, r.t)))]

    def m_str_index(self, s, r, args, kw, node, bm):
        sub = self._sarg(args[0])
        start = (self.lift_like(args[1], INT).t if len(args) > 1 else z3.IntVal(0))
        idx = z3.IndexOf(r.t, sub.t, start)
        ok, bad = self.branch(s, idx >= 0, "index")
        if bad is not None:
            self.raise_(bad, ValueError, where=node)
        return [(ok, Val(INT, idx))] if ok is not None else []

    def m_str_find(self, s, r, args, kw, node, bm):
        sub = self._sarg(args[0])
        start = (self.lift_like(args[1], INT).t if len(args) > 1 else z3.IntVal(0))
        n = z3.Length(r.t)
        # CPython: find with start > len returns -1 (also for the empty needle); z3 agrees for start<=len
        return [(s, Val(INT, z3.If(start > n, z3.IntVal(-1), z3.IndexOf(r.t, sub.t, start))))]

    def m_str_replace(self, s, r, args, kw, node, bm):
        old, new = self._sarg(args[0]), self._sarg(args[1])
        cnt = args[2] if len(args) > 2 else None
        if cnt is not None and cnt.is_py and cnt.t == 1:
            # CPython: "".replace("", x, 1) == x ; s.replace("", x, 1) == x + s  -- z3 str.replace agrees
            return [(s, Val(STR, z3.Replace(r.t, old.t, new.t)))]
        if cnt is None:
            f = self.uf("str_replace_all", [z3.StringSort()] * 3, z3.StringSort())
            res = f(r.t, old.t, new.t)
            self.axioms.append(z3.Implies(z3.Not(z3.Contains(r.t, old.t)), res == r.t))
            self.axioms.append(z3.Implies(old.t == new.t, res == r.t))
            return [(s, Val(STR, res))]
        raise Unsupported("str.replace with count")

    def strip_model(self, r, which, chars=None):
        """strip/lstrip/rstrip(chars=None): result is the unique substring r = L+res+R with L,R in chars*,
        res not starting/ending with a char from chars."""
        cs = _WS if chars is None else chars
        cls = z3.Union(*[z3.Re(z3.StringVal(c)) for c in cs]) if len(cs) > 1 else z3.Re(z3.StringVal(cs))
        star = z3.Star(cls)
        # total functions of the subject (the decomposition always exists and is unique): the same subject has the same
        # result wherever it is stripped (code or specification)
        import hashlib as _h
        tag = which + "_" + ("ws" if chars is None else _h.md5(chars.encode()).hexdigest()[:6])
        SS = z3.StringSort()
        res = self.uf("strip_" + tag, [SS], SS)(r)
        L = self.uf("stripL_" + tag, [SS], SS)(r)
        R = self.uf("stripR_" + tag, [SS], SS)(r)
        ax = [r == z3.Concat(L, res, R), z3.InRe(L, star), z3.InRe(R, star)]
        anyc = z3.Full(z3.ReSort(z3.StringSort()))
        if which in ("strip", "lstrip"):
            ax.append(z3.Not(z3.InRe(res, z3.Concat(cls, anyc))))
        else:
            ax.append(L == z3.StringVal(""))
        if which in ("strip", "rstrip"):
            ax.append(z3.Not(z3.InRe(res, z3.Concat(anyc, cls))))
        else:
            ax.append(R == z3.StringVal(""))
        return res, ax

    def _strip(self, s, r, args, which):
        chars = None
        if args:
            if not args[0].is_py and z3.is_string_value(args[0].t):
                chars = args[0].t.as_string()
            elif args[0].is_py and isinstance(args[0].t, str):
                chars = args[0].t
            elif args[0].is_py and args[0].t is None:
                chars = None
            else:
                raise Unsupported("strip with symbolic chars")
            if chars == "":
                return [(s, r)]
        res, ax = self.strip_model(r.t, which, chars)
        key = res.get_id()
        if key not in self._strip_done:
            self._strip_done.add(key)
            if self.binder_depth:
                for a in ax:       # subject mentions bound variables: the facts can only be local
                    s.assume(a)
                self._strip_done.discard(key)
            else:
                self.axioms.extend(ax)
        return [(s, Val(STR, res))]

    def m_str_strip(self, s, r, args, kw, node, bm): return self._strip(s, r, args, "strip")
    def m_str_lstrip(self, s, r, args, kw, node, bm): return self._strip(s, r, args, "lstrip")
    def m_str_rstrip(self, s, r, args, kw, node, bm): return self._strip(s, r, args, "rstrip")

    def m_str_partition(self, s, r, args, kw, node, bm):
        from .types import TTuple
        sep = self._sarg(args[0])
        idx = z3.IndexOf(r.t, sep.t, z3.IntVal(0))
        found = z3.And(idx >= 0, z3.Length(sep.t) > 0)
        n = z3.Length(r.t)
        empty = z3.StringVal("")
        ty = TTuple(STR, STR, STR)
        srt = self.reg.sort(ty)
        t = srt.mktup(z3.If(found, z3.SubString(r.t, 0, idx), r.t), z3.If(found, sep.t, empty),
                      z3.If(found, z3.SubString(r.t, idx + z3.Length(sep.t), n - idx - z3.Length(sep.t)), empty))
        return [(s, Val(ty, t))]

    def m_str_removeprefix(self, s, r, args, kw, node, bm):
        p = self._sarg(args[0])
        return [(s, Val(STR, z3.If(z3.PrefixOf(p.t, r.t), z3.SubString(r.t, z3.Length(p.t), z3.Length(r.t) - z3.Length(p.t)), r.t)))]

    def m_str_format(self, s, r, args, kw, node, bm):
        if not z3.is_string_value(r.t):
            raise Unsupported("format on symbolic template")
        import string
        tpl = r.t.as_string()
        parts, ai = [], 0
        for lit, field, spec, conv in string.Formatter().parse(tpl):
            if lit:
                parts.append(z3.StringVal(lit))
            if field is None:
                continue
            if spec or conv:
                raise Unsupported("format spec")
            if field == "":
                v = args[ai]; ai += 1
            elif field.isdigit():
                v = args[int(field)]
            else:
                v = kw[field]
            parts.append(self.to_str(v).t)
        t = parts[0] if len(parts) == 1 else (z3.Concat(*parts) if parts else z3.StringVal(""))
        return [(s, Val(STR, t, {"template": tpl, "args": (args, kw)}))]

    def m_str_join(self, s, r, args, kw, node, bm):
        v = args[0]
        if v.is_py:
            items = [x if isinstance(x, Val) else self.lift(x) for x in v.t]
            parts = []
            for i, it in enumerate(items):
                if i:
                    parts.append(r.t)
                parts.append(self._sarg(it).t)
            t = parts[0] if len(parts) == 1 else (z3.Concat(*parts) if parts else z3.StringVal(""))
            return [(s, Val(STR, t))]
        if v.ty.kind == "tuple":
            return self.m_str_join(s, r, [py([self.tuple_get(v, i) for i in range(len(v.ty.args))])], kw, node, bm)
        if v.ty.kind in ("seq", "set"):
            seq = v if v.ty.kind == "seq" else self.enumeration_of(v)
            return [(s, self.join_seq(r, seq))]
        raise Unsupported(f"join of {v.ty}")

    def join_seq(self, sep: Val, seq: Val) -> Val:
        f = self.uf("str_join", [z3.StringSort(), self.reg.sort(seq.ty)], z3.StringSort())
        res = f(sep.t, seq.t)
        n = z3.Length(seq.t)
        j = z3.Int(fresh_name("jj"))
        allempty = z3.ForAll([j], z3.Implies(z3.And(0 <= j, j < n), seq.t[j] == z3.StringVal("")))
        self.axioms.append(z3.Implies(n == 0, res == z3.StringVal("")))
        self.axioms.append(z3.Implies(n == 1, res == seq.t[0]))
        if z3.is_string_value(sep.t) and sep.t.as_string() != "":
            self.axioms.append((res == z3.StringVal("")) == z3.Or(n == 0, z3.And(n == 1, seq.t[0] == z3.StringVal(""))))
        self.axioms.append(z3.ForAll([j], z3.Implies(z3.And(0 <= j, j < n), z3.Contains(res, seq.t[j]))))
        # element-set view: a non-empty element makes the result non-empty; no element at all makes it empty
        el = self.elems_of(seq)
        x = z3.String(fresh_name("jx"))
        empty = self.empty_set(STR).t
        self.axioms.append(z3.ForAll([x], z3.Implies(z3.And(z3.Select(el, x), x != z3.StringVal("")), res != z3.StringVal(""))))
        self.axioms.append(z3.Implies(el == empty, res == z3.StringVal("")))
        self.axioms.append((el == empty) == (n == 0))
        return Val(STR, res)

    def m_str_lower(self, s, r, args, kw, node, bm):
        f = self.uf("str_lower", [z3.StringSort()], z3.StringSort())
        return [(s, Val(STR, f(r.t)))]

    def m_str_splitlines(self, s, r, args, kw, node, bm):
        keep = bool(kw.get("keepends").t) if "keepends" in kw else (bool(args[0].t) if args else False)
        return [(s, self.splitlines_model(r, keep))]

    def splitlines_model(self, r: Val, keep: bool) -> Val:
        f = self.uf("splitlines_keep" if keep else "splitlines", [z3.StringSort()], self.reg.sort(TSeq(STR)))
        res = Val(TSeq(STR), f(r.t))
        self.axioms.append((z3.Length(res.t) == 0) == (r.t == z3.StringVal("")))
        hook = self.splitlines_axioms
        if hook is not None:
            hook(self, r, res, keep)
        return res

    def m_str_split(self, s, r, args, kw, node, bm):
        if not args:
            raise Unsupported("split() on whitespace")
        sep = self._sarg(args[0])
        f = self.uf("str_split", [z3.StringSort(), z3.StringSort()], self.reg.sort(TSeq(STR)))
        res = Val(TSeq(STR), f(r.t, sep.t))
        self.axioms.append(z3.Length(res.t) >= 1)
        self.axioms.append(z3.Implies(z3.Not(z3.Contains(r.t, sep.t)), res.t == z3.Unit(r.t)))
        return [(s, res)]

    def m_str_encode(self, s, r, args, kw, node, bm):
        return [(s, Val(STR, r.t, {"bytes": True}))]

    # -- set
    def m_set_add(self, s, r, args, kw, node, bm):
        if r.meta and r.meta.get("empty"):
            r = self.empty_set(args[0].ty if not args[0].is_py else self.lift(args[0].t).ty)
        self.store_lvalue(s, bm.lv, self.set_add(r, args[0]))
        return [(s, Val(NONE, None))]

    def m_set_clear(self, s, r, args, kw, node, bm):
        self.store_lvalue(s, bm.lv, self.empty_set(r.ty.args[0]) if r.ty.kind == "set" else r)
        return [(s, Val(NONE, None))]

    def m_set_update(self, s, r, args, kw, node, bm):
        outs = self.m_set_union(s, r, args, kw, node, bm)
        res = []
        for s2, v in outs:
            self.store_lvalue(s2, bm.lv, v)
            res.append((s2, Val(NONE, None)))
        return res

    def m_set_discard(self, s, r, args, kw, node, bm):
        e = self.coerce(args[0], r.ty.args[0])
        self.store_lvalue(s, bm.lv, Val(r.ty, z3.Store(r.t, e.t, z3.BoolVal(False))))
        return [(s, Val(NONE, None))]

    def m_set_union(self, s, r, args, kw, node, bm):
        o = args[0]
        if r.meta and r.meta.get("empty"):
            return [(s, o)]
        if o.meta and o.meta.get("empty"):
            return [(s, r)]
        if o.is_py:
            o = self.coerce(o, r.ty)
        if o.ty.kind == "seq":
            o = self.seq_elems(o)
        if o.ty.kind == "tuple":
            o = self.bi_set(s, [o], {}, node)[0][1]
        return [(s, self.set_union(r, self.coerce(o, r.ty)))]

    def m_set_intersection(self, s, r, args, kw, node, bm):
        o = args[0]
        if o.is_py:
            if isinstance(o.t, dict):
                o = py(set(o.t.keys()))
            o = self.coerce(o, r.ty)
        if o.ty.kind == "dict":
            o = Val(TSet(o.ty.args[0]), self.dict_dom(o))
        return [(s, self.set_inter(r, o))]

    def m_set_difference(self, s, r, args, kw, node, bm):
        return [(s, self.set_diff(r, self.coerce(args[0], r.ty)))]

    def m_set_copy(self, s, r, args, kw, node, bm):
        return [(s, r)]

    def m_set_remove(self, s, r, args, kw, node, bm):
        ok, bad = self.branch(s, self.set_has(r, args[0]), "remove")
        if bad is not None:
            self.raise_(bad, KeyError, where=node)
        if ok is None:
            return []
        e = self.coerce(args[0], r.ty.args[0])
        self.store_lvalue(ok, bm.lv, Val(r.ty, z3.Store(r.t, e.t, z3.BoolVal(False))))
        return [(ok, Val(NONE, None))]

    # -- dict
    def m_dict_get(self, s, r, args, kw, node, bm):
        if r.meta and r.meta.get("empty"):
            return [(s, args[1] if len(args) > 1 else Val(NONE, None))]
        has = self.dict_has(r, args[0])
        got = self.dict_get(r, args[0])
        dflt = args[1] if len(args) > 1 else Val(NONE, None)
        return [(s, self.ite(has, got, dflt))]

    def m_dict_items(self, s, r, args, kw, node, bm):
        return [(s, py(("items", r)))]

    def m_dict_keys(self, s, r, args, kw, node, bm):
        return [(s, Val(TSet(r.ty.args[0]), self.dict_dom(r)))]

    def m_dict_values(self, s, r, args, kw, node, bm):
        return [(s, py(("values", r)))]

    def m_dict_copy(self, s, r, args, kw, node, bm):
        return [(s, r)]

    def m_dict_setdefault(self, s, r, args, kw, node, bm):
        key, dflt = args[0], args[1]
        dflt = self.coerce(dflt, r.ty.args[1])
        has = self.dict_has(r, key)
        cur = self.ite(has, self.dict_get(r, key), dflt)
        self.store_lvalue(s, bm.lv, self.dict_set(r, key, cur))
        return [(s, cur)]

    def m_dict_update(self, s, r, args, kw, node, bm):
        o = self.coerce(args[0], r.ty)
        srt = self.reg.sort(r.ty)
        k = z3.Const(fresh_name("uk"), self.reg.sort(r.ty.args[0]))
        newdom = z3.Map(self._f_or, self.dict_dom(r), self.dict_dom(o))
        newval = z3.Const(fresh_name("uv"), self.dict_vals(r).sort())
        s.assume(z3.ForAll([k], newval[k] == z3.If(self.dict_dom(o)[k], self.dict_vals(o)[k], self.dict_vals(r)[k])))
        self.store_lvalue(s, bm.lv, Val(r.ty, srt.mkdict(newdom, newval)))
        return [(s, Val(NONE, None))]

    # -- seq
    def m_seq_append(self, s, r, args, kw, node, bm):
        if r.meta and r.meta.get("empty"):
            a = args[0] if not args[0].is_py else self.lift(args[0].t)
            if a.is_py:
                self.store_lvalue(s, bm.lv, py([a.t]))
                return [(s, Val(NONE, None))]
            new = self.mk_seq([a], a.ty)
        else:
            e = self.coerce(args[0], r.ty.args[0])
            new = Val(r.ty, z3.Concat(r.t, z3.Unit(e.t)))
        self.store_lvalue(s, bm.lv, new)
        return [(s, Val(NONE, None))]

    def m_seq_extend(self, s, r, args, kw, node, bm):
        o = args[0]
        if r.meta and r.meta.get("empty"):
            new = o
        else:
            o = self.coerce(o, r.ty)
            new = Val(r.ty, z3.Concat(r.t, o.t))
        self.store_lvalue(s, bm.lv, new)
        return [(s, Val(NONE, None))]

    def m_seq_copy(self, s, r, args, kw, node, bm):
        return [(s, r)]

    # ---- comprehensions ------------------------------------------------------------------------
    setlike = False

    def comp_instances(self, generators, st, setlike=False):
        prev = self.setlike
        self.setlike = setlike
        try:
            return self._comp_instances_outer(generators, st)
        finally:
            self.setlike = prev

    def _comp_instances_outer(self, generators, st):
        """Expand comprehension generators into symbolic instances (state-with-env, bound vars, guard)."""
        insts = [Instance(st.copy(), [], z3.BoolVal(True))]
        if self.binder_depth == 0:
            self._bcount = 0
        self.binder_depth += 1
        try:
            return self._comp_instances(generators, insts)
        finally:
            self.binder_depth -= 1

    def _comp_instances(self, generators, insts):
        for gen in generators:
            if gen.is_async:
                raise Unsupported("async comprehension")
            nxt = []
            for inst in insts:
                it = self.ev_pure(gen.iter, inst.st)
                for st2, bound, guard in self.iter_instances(it, gen.target, inst.st):
                    g = z3.And(inst.guard, guard)
                    for cond in gen.ifs:
                        c = self.ev_pure(cond, st2)
                        g = z3.And(g, self.truth(c))
                    nxt.append(Instance(st2, inst.bound + bound, g))
            insts = nxt
        return insts

    def iter_instances(self, it: Val, target, st):
        """-> [(state with target bound, [bound consts], guard)]"""
        res = []
        if it.is_py and isinstance(it.t, tuple) and len(it.t) == 2 and it.t[0] in ("items", "values", "enumerate"):
            tag, d = it.t
            if tag == "enumerate":
                j = self.bound_const("ci", z3.IntSort())
                s2 = st.copy()
                self.assign_target(s2, target, self.mk_pair(Val(INT, j), self.seq_nth(d, j)))
                return [(s2, [j], z3.And(0 <= j, j < z3.Length(d.t)))]
            k = self.bound_const("ck", self.reg.sort(d.ty.args[0]))
            kv = Val(d.ty.args[0], k)
            s2 = st.copy()
            if tag == "items":
                self.assign_target(s2, target, self.mk_pair(kv, self.dict_get(d, kv)))
            else:
                self.assign_target(s2, target, self.dict_get(d, kv))
            return [(s2, [k], self.dict_has(d, kv))]
        if it.is_py and isinstance(it.t, tuple) and it.t and it.t[0] == "range":
            lo, hi = it.t[1], it.t[2]
            j = self.bound_const("cr", z3.IntSort())
            s2 = st.copy()
            self.assign_target(s2, target, Val(INT, j))
            return [(s2, [j], z3.And(lo <= j, j < hi))]
        if it.is_py:
            seq = it.t
            if isinstance(seq, dict):
                seq = list(seq.keys())
            if isinstance(seq, range):
                seq = list(seq)
            if not isinstance(seq, (list, tuple, set, frozenset)):
                raise Unsupported(f"iteration over python object {type(seq)}")
            if isinstance(seq, (set, frozenset)):
                seq = sorted(seq, key=repr)
            for x in seq:
                s2 = st.copy()
                self.assign_target(s2, target, x if isinstance(x, Val) else self.lift(x))
                res.append((s2, [], z3.BoolVal(True)))
            return res
        k = it.ty.kind
        if k == "opt":
            # iterating None raises TypeError: obligation that the value is not None here, then iterate the payload
            if not self.spec_mode:
                self.emit(st, "not-none@iteration", z3.Not(self.is_none(it)), note="iterated Optional value is not None")
            return self.iter_instances(self.unwrap(it), target, st)
        if k == "set":
            elems = self.explicit_elements(it)
            if elems is not None:
                for x in elems:
                    s2 = st.copy()
                    self.assign_target(s2, target, x)
                    res.append((s2, [], z3.BoolVal(True)))
                return res
        if k == "set" or k == "dict":
            et = it.ty.args[0]
            e = self.bound_const("ce", self.reg.sort(et))
            s2 = st.copy()
            self.assign_target(s2, target, Val(et, e))
            guard = it.t[e] if k == "set" else self.dict_has(it, Val(et, e))
            return [(s2, [e], guard)]
        if k == "seq" and self.setlike:
            # order and multiplicity do not matter for the consumer: iterate the element-set view
            et = it.ty.args[0]
            e = self.bound_const("ce", self.reg.sort(et))
            s2 = st.copy()
            self.assign_target(s2, target, Val(et, e))
            from .state import _symbols
            if not any(n.startswith("bv") for n in _symbols(it.t)):
                self.seq_elems(it)      # closed term: state the index <-> element-set link once
            return [(s2, [e], z3.Select(self.elems_of(it), e))]
        if k in ("seq", "str"):
            j = self.bound_const("ci", z3.IntSort())
            s2 = st.copy()
            self.assign_target(s2, target, self.seq_nth(it, j))
            return [(s2, [j], z3.And(0 <= j, j < z3.Length(it.t)))]
        if k == "tuple":
            for i in range(len(it.ty.args)):
                s2 = st.copy()
                self.assign_target(s2, target, self.tuple_get(it, i))
                res.append((s2, [], z3.BoolVal(True)))
            return res
        raise Unsupported(f"iteration over {it.ty}")

    def explicit_elements(self, setv: Val):
        """Elements of a set term built as Store(...Store(K(false), a, true)..., z, true), else None."""
        t, out = setv.t, []
        while True:
            if z3.is_store(t) and z3.is_true(t.arg(2)):
                out.append(Val(setv.ty.args[0], t.arg(1)))
                t = t.arg(0)
                continue
            if z3.is_const_array(t) and z3.is_false(t.arg(0)):
                return list(reversed(out))
            return None

    def mk_pair(self, a, b):
        return py((a, b))

    def ev_under_binder(self, node, st):
        self.binder_depth += 1
        try:
            return self.ev_pure(node, st)
        finally:
            self.binder_depth -= 1

    def comp_set(self, elt, generators, st, flatten=False) -> Val:
        """{elt | generators}.  Encodings, in order of preference:
        (1) identity element over one symbolic set with a guard -> array lambda (quantifier-free membership);
        (2) otherwise a canonical constant named after the alpha-normalised defining terms (so the same
            comprehension over the same heap is the same term) with the two membership axioms."""
        insts = self.comp_instances(generators, st, setlike=True)
        vals = [(i, self.ev_under_binder(elt, i.st)) for i in insts]
        if vals and all(not i.bound and (v.is_py or z3.is_string_value(v.t) or z3.is_int_value(v.t)) for i, v in vals):
            gs = [z3.simplify(i.guard) for i, _ in vals]
            if all(z3.is_true(g) or z3.is_false(g) for g in gs):
                def conc(v):
                    return v.t if v.is_py else (v.t.as_string() if z3.is_string_value(v.t) else v.t.as_long())
                return py({conc(v) for (i, v), g in zip(vals, gs) if z3.is_true(g)})   # fully concrete comprehension
        vals = [(i, v if not v.is_py else self.lift(v.t)) for i, v in vals]
        if not vals:
            return Val(TSet(PY), None, {"empty": True})
        ety = vals[0][1].ty
        if ety.kind == "py":
            raise Unsupported("set comprehension over python objects")
        vals = [(i, self.coerce(v, ety)) for i, v in vals]
        if len(vals) == 1 and len(vals[0][0].bound) == 1 and vals[0][1].t.eq(vals[0][0].bound[0]):
            inst = vals[0][0]
            return Val(TSet(ety), z3.Lambda(inst.bound, inst.guard))
        if all(not i.bound for i, _ in vals):
            r = self.empty_set(ety)
            for i, v in vals:
                g = z3.simplify(i.guard)
                r = Val(r.ty, z3.If(g, z3.Store(r.t, v.t, z3.BoolVal(True)), r.t)) if not z3.is_true(g) else self.set_add(r, v)
            return r
        # canonical naming
        import hashlib
        parts = []
        for inst, v in vals:
            subs = [(b, z3.Const(f"cb{k}_{b.sort()}", b.sort())) for k, b in enumerate(inst.bound)]
            parts.append(z3.substitute(inst.guard, *subs).sexpr() + "|" + z3.substitute(v.t, *subs).sexpr()
                         + "|" + ",".join(str(b.sort()) for b in inst.bound))
        key = hashlib.sha1(("||".join(parts) + str(self.reg.sort(ety))).encode()).hexdigest()[:16]
        hit = self._comp_cache.get(key)
        if hit is None:
            r = Val(TSet(ety), z3.Const("comp_" + key, self.reg.sort(TSet(ety))))
            y = z3.Const(fresh_name("cy"), self.reg.sort(ety))
            axs, alts = [], []
            for inst, v in vals:
                body = z3.Implies(inst.guard, r.t[v.t])
                axs.append(z3.ForAll(inst.bound, body) if inst.bound else body)
                ex = z3.And(inst.guard, v.t == y)
                alts.append(z3.Exists(inst.bound, ex) if inst.bound else ex)
            axs.append(z3.ForAll([y], z3.Implies(r.t[y], z3.Or(*alts)), patterns=[r.t[y]]))
            hit = (r, axs)
            self._comp_cache[key] = hit
        r, axs = hit
        have = {id(a) for a in self.axioms}
        for a in axs:
            if id(a) not in have:
                self.axioms.append(a)
        return r

    def ev_SetComp(self, n, st):
        return [(s, self.comp_set(m.elt, m.generators, s)) for s, m in self.hoist(n, st)]

    def ev_ListComp(self, n, st):
        return [(s, self.comp_list(m.elt, m.generators, s)) for s, m in self.hoist(n, st)]

    def ev_GeneratorExp(self, n, st):
        return [(s, self.comp_list(m.elt, m.generators, s)) for s, m in self.hoist(n, st)]

    def hoist(self, comp, st):
        """Evaluate binder-independent calls of *idempotent* contracted getters once, in the enclosing state, and
        replace them by a temporary inside the comprehension (modelling assumption recorded per contract)."""
        if self.binder_depth > 0:
            return [(st, comp)]
        import copy, inspect as _insp
        first = comp.generators[0].iter
        if any(isinstance(x, ast.Call) for x in ast.walk(first)) and not getattr(comp, "_first_hoisted", False):
            # the first iterable of a comprehension is evaluated once, in the enclosing scope
            res = []
            for s0, v in self.ev(first, st):
                tmp = fresh_name("hoisted_iter")
                s0.env[tmp] = v
                m = copy.deepcopy(comp)
                m.generators[0].iter = ast.copy_location(ast.Name(id=tmp, ctx=ast.Load()), first)
                m._first_hoisted = True
                res += self.hoist(m, s0)
            return res
        targets = set()
        for g in comp.generators:
            targets |= {x.id for x in ast.walk(g.target) if isinstance(x, ast.Name)}
        cands = []
        for node in ast.walk(comp):
            if isinstance(node, ast.Attribute) and isinstance(node.ctx, ast.Load):
                if any(isinstance(x, ast.Name) and x.id in targets for x in ast.walk(node.value)):
                    continue
                if any(isinstance(x, (ast.Call, ast.NamedExpr)) for x in ast.walk(node.value)):
                    continue
                try:
                    base = self.ev_pure(node.value, st)
                except Unsupported:
                    continue
                if base.is_py or base.ty.kind not in ("ref", "data"):
                    continue
                cls = self.reg.pyclass.get(base.ty.name)
                if cls is None:
                    continue
                val = _insp.getattr_static(cls, node.attr, None)
                if isinstance(val, property):
                    c = self.contracts.get(self.qualname_of(val.fget))
                    if c is not None and getattr(c, "idempotent", False):
                        cands.append(node)
        # calls of contracted *pure* functions (result a function of the arguments, no frame) whose arguments do not
        # mention the comprehension variables
        import types as _t
        for node in ast.walk(comp):
            if isinstance(node, ast.Call) and isinstance(node.func, ast.Name):
                if any(isinstance(x, ast.Name) and x.id in targets for a in node.args + [k.value for k in node.keywords] for x in ast.walk(a)):
                    continue
                try:
                    f = self.lookup(node.func.id, st)
                except Unsupported:
                    continue
                if f.is_py and isinstance(f.t, _t.FunctionType):
                    c = self.contracts.get(self.qualname_of(f.t))
                    if c is not None and getattr(c, "pure", False) and not c.inline:
                        cands.append(node)
        if not cands:
            return [(st, comp)]
        new = copy.deepcopy(comp)
        # map by source position
        keyed = {(c.lineno, c.col_offset, c.end_col_offset): c for c in cands}
        outs = [(st, {})]
        for key, c in keyed.items():
            nxt = []
            for s, names in outs:
                for s2, v in self.ev(c, s):
                    tmp = fresh_name("hoisted_" + (c.attr if isinstance(c, ast.Attribute) else c.func.id))
                    s2.env[tmp] = v
                    nxt.append((s2, {**names, key: tmp}))
            outs = nxt
        res = []
        for s, names in outs:
            m = copy.deepcopy(comp)

            class R(ast.NodeTransformer):
                def visit_Attribute(self_, node):
                    k = (node.lineno, node.col_offset, node.end_col_offset)
                    if k in names:
                        return ast.copy_location(ast.Name(id=names[k], ctx=ast.Load()), node)
                    return self_.generic_visit(node)

                def visit_Call(self_, node):
                    k = (node.lineno, node.col_offset, node.end_col_offset)
                    if k in names:
                        return ast.copy_location(ast.Name(id=names[k], ctx=ast.Load()), node)
                    return self_.generic_visit(node)
            res.append((s, R().visit(m)))
        return res

    def comp_list(self, elt, generators, st) -> Val:
        # concrete unrolling when every iterable is python-level
        insts = self.comp_instances(generators, st)
        if all(not i.bound for i in insts):
            items = []
            for i in insts:
                g = z3.simplify(i.guard)
                if z3.is_false(g):
                    continue
                if not z3.is_true(g):
                    raise Unsupported("list comprehension with symbolic filter over a concrete list")
                items.append(self.ev_pure(elt, i.st))
            return py(items)
        if len(generators) == 1 and not generators[0].ifs and len(insts) == 1 and len(insts[0].bound) == 1 \
                and insts[0].bound[0].sort() == z3.IntSort():
            inst = insts[0]
            v = self.ev_under_binder(elt, inst.st)
            if v.is_py:
                v = self.lift(v.t)
            it = self.ev_pure(generators[0].iter, st)
            src = it.t[1] if it.is_py else it
            r = self.fresh(TSeq(v.ty), "lcomp")
            j = inst.bound[0]
            self.axioms.append(z3.Length(r.t) == z3.Length(src.t))
            self.axioms.append(z3.ForAll([j], z3.Implies(inst.guard, r.t[j] == v.t)))
            from .state import _symbols
            self.seq_elems(r)                      # index <-> element-set link for the mapped list ...
            if src.ty.kind == "seq" and not any(n_.startswith("bv") for n_ in _symbols(src.t)):
                self.seq_elems(src)                # ... and for its source
            return r
        # general case: order/multiplicity abstract, element set exact
        setv = self.comp_set(elt, generators, st)
        if setv.meta and setv.meta.get("empty"):
            return Val(TSeq(PY), None, {"empty": True})
        r = self.fresh(TSeq(setv.ty.args[0]), "lcomp")
        self.axioms.append(self.seq_elems(r).t == setv.t)
        self.axioms.append((z3.Length(r.t) == 0) == (setv.t == self.empty_set(setv.ty.args[0]).t))
        return r

    def ev_DictComp(self, n, st):
        insts = self.comp_instances(n.generators, st)
        if all(not i.bound for i in insts):
            d = {}
            for i in insts:
                if not z3.is_true(z3.simplify(i.guard)):
                    raise Unsupported("dict comprehension with symbolic filter")
                k = self.ev_pure(n.key, i.st)
                d[self._pykey(k)] = self.ev_pure(n.value, i.st)
            return [(st, py(d))]
        raise Unsupported("dict comprehension over symbolic collection")

    def call_on_generator(self, fname, gen, st, node):
        outs = []
        for s, g in self.hoist(gen, st):
            outs += self._call_on_generator(fname, g, s, node)
        return outs

    def _call_on_generator(self, fname, gen, st, node):
        if fname in ("any", "all"):
            insts = self.comp_instances(gen.generators, st, setlike=True)
            parts = []
            for i in insts:
                prev_to, self.truth_only = self.truth_only, True      # any()/all() only look at truth values
                try:
                    t = self.truth(self.ev_under_binder(gen.elt, i.st))
                finally:
                    self.truth_only = prev_to
                if fname == "any":
                    b = z3.And(i.guard, t)
                    parts.append(z3.Exists(i.bound, b) if i.bound else b)
                else:
                    b = z3.Implies(i.guard, t)
                    parts.append(z3.ForAll(i.bound, b) if i.bound else b)
            if not parts:
                return [(st, self.lift(fname == "all"))]
            return [(st, Val(BOOL, z3.Or(*parts) if fname == "any" else z3.And(*parts)))]
        if fname in ("set",):
            return [(st, self.comp_set(gen.elt, gen.generators, st))]
        if fname in ("list", "tuple"):
            return [(st, self.comp_list(gen.elt, gen.generators, st))]
        if fname == "sorted":
            lst = self.comp_list(gen.elt, gen.generators, st)
            kw = {}
            return self.bi_sorted(st, [lst], kw, node)
        if fname == "next":
            raise Unsupported("next(generator)")
        raise Unsupported(f"{fname}(generator)")

    def join_generator(self, sepnode, gen, st, node):
        outs = []
        for s0, sep in self.ev(sepnode, st):
            for s, g in self.hoist(gen, s0):
                lst = self.comp_list(g.elt, g.generators, s)
                outs += self.m_str_join(s, self._sarg(sep), [lst], {}, node, None)
        return outs

    # ---- spec functions and special forms --------------------------------------------------------
    def call_spec(self, s, func, args, kwargs, node):
        info = getattr(func, "__pyvc_spec__", None) or {}
        if info.get("opaque"):
            return [(s, self.opaque_app(func, args, s))]
        if not info.get("recursive"):
            return self.inline_function(s, func, args, kwargs, node)
        fnode, module = self.source.function(func)
        params = [a.arg for a in fnode.args.args]
        tys = [self.reg.parse(fnode.args.args[i].annotation) for i in range(len(params))]
        rty = self.reg.parse(fnode.returns)
        uf = self.uf("spec_" + func.__name__, [self.reg.sort(t) for t in tys], self.reg.sort(rty))
        cargs = [self.coerce(a, t) for a, t in zip(args, tys)]
        app = uf(*[a.t for a in cargs])
        res = Val(rty, app)
        key = func.__qualname__
        if key in self.spec_stack or not self.unfold_specs:
            return [(s, res)]
        self.spec_stack.append(key)
        try:
            mark = len(self.abrupt)
            prev = self.spec_mode
            self.spec_mode = True
            base = State()
            base.ghost = {k: v for k, v in s.ghost.items()}
            outs = self._inline(base, fnode, func, module, cargs, {}, None, key)
            self.spec_mode = prev
            if len(self.abrupt) > mark:
                del self.abrupt[mark:]
                raise Unsupported(f"spec function {key} may raise")
            # definitional unfolding (fuel 1): path-wise equations
            cases = []
            for st2, v in outs:
                v = self.coerce(v, rty)
                cond = z3.And(*st2.pc) if st2.pc else z3.BoolVal(True)
                cases.append((cond, app == v.t))
            if len(cases) == 1:
                self.axioms.append(z3.Implies(*cases[0]))
            else:
                self.case_splits.append(cases)
        finally:
            self.spec_stack.pop()
        return [(s, res)]


def _opaque_app(self, func, args, st):
    """Uninterpreted application; the heap fields the body reads (declared in reads=) are explicit arguments."""
    fnode, module = self.source.function(func)
    tys = [self.reg.parse(a.annotation) for a in fnode.args.args]
    rty = self.reg.parse(fnode.returns)
    heaps = []
    for spec_ in func.__pyvc_spec__.get("reads", []):
        cls, fld = spec_.split(".")
        heaps.append(self.heap_array(st, cls, fld))
    uf = self.uf("opq_" + func.__name__, [self.reg.sort(t) for t in tys] + [h.sort() for h in heaps], self.reg.sort(rty))
    cargs = [self.coerce(a, t) for a, t in zip(args, tys)]
    return Val(rty, uf(*([a.t for a in cargs] + heaps)))


BuiltinsMixin.opaque_app = _opaque_app


def _sf_reveal(self, n, st):
    call = n.args[0]
    if not isinstance(call, ast.Call):
        raise Unsupported("reveal(f(args))")
    if self.using_lemma:
        return [(st, Val(BOOL, z3.BoolVal(True)))]   # the definition is a fact, not a hypothesis of the instance
    f = self.ev_pure(call.func, st)
    args = [self.ev_under_binder(a, st) if self.binder_depth else self.ev_pure(a, st) for a in call.args]
    app = self.opaque_app(f.t, args, st)
    fnode, module = self.source.function(f.t)
    tys = [self.reg.parse(a.annotation) for a in fnode.args.args]
    cargs = [self.coerce(a, t) for a, t in zip(args, tys)]
    mark = len(self.abrupt)
    saved_reads = self.heap_reads
    self.heap_reads = set()
    outs = self._inline(st.copy(), fnode, f.t, module, cargs, {}, None, f.t.__qualname__)
    undeclared = self.heap_reads - set(f.t.__pyvc_spec__.get("reads", []))
    self.heap_reads = saved_reads | self.heap_reads
    if undeclared:
        raise Unsupported(f"opaque spec function {f.t.__name__} reads heap fields not declared in reads=: {sorted(undeclared)}")
    if len(self.abrupt) > mark:
        del self.abrupt[mark:]
        raise Unsupported("revealed spec function may raise")
    body = self.coerce(self.merge(outs), app.ty)
    eqn = app.t == body.t
    if self.binder_depth:
        return [(st, Val(BOOL, eqn))]        # under a binder the equation must stay inside the quantifier
    self.axioms.append(eqn)
    return [(st, Val(BOOL, z3.BoolVal(True)))]


def _sf_use(self, n, st):
    lem_fn = self.ev_pure(n.args[0], st).t
    lem = getattr(lem_fn, "__pyvc_lemma__", None)
    if lem is None:
        raise Unsupported("use() of something that is not a @lemma")
    given = [self.ev_pure(a, st) for a in n.args[1:]]
    names = list(lem.types)
    env, bound = {}, []
    self.begin_binder()
    for k, p in enumerate(names):
        ty = self.reg.parse(lem.types[p])
        if k < len(given):
            env[p] = self.coerce(given[k], ty)
        else:
            c = self.bound_const("u_" + p, self.reg.sort(ty))
            bound.append(c)
            env[p] = Val(ty, c)
    base = State()
    base.ghost = dict(st.ghost)
    base.heap = dict(st.heap)
    self.binder_depth += 1 if bound else 0
    self.using_lemma += 1
    try:
        body = self.truth(self.eval_spec_fn(base, lem_fn, env))
    finally:
        self.binder_depth -= 1 if bound else 0
        self.using_lemma -= 1
    self.axioms.append(z3.ForAll(bound, body) if bound else body)
    self.lemmas_used.add(lem.name)
    return [(st, Val(BOOL, z3.BoolVal(True)))]


def _sf_forall(self, n, st, exists=False):
    lam = n.args[0]
    if not isinstance(lam, ast.Lambda):
        raise Unsupported("forall/exists needs a lambda")
    tynodes = n.args[1:]
    params = [a.arg for a in lam.args.args]
    if len(tynodes) != len(params):
        raise Unsupported("forall: one type per bound variable")
    s2 = st.copy()
    bound = []
    self.begin_binder()
    for p, tn in zip(params, tynodes):
        ty = self.reg.parse(tn.value if isinstance(tn, ast.Constant) else tn)
        c = self.bound_const("q_" + p, self.reg.sort(ty))
        bound.append(c)
        s2.env[p] = Val(ty, c)
    body = self.truth(self.ev_under_binder(lam.body, s2))
    q = z3.Exists(bound, body) if exists else z3.ForAll(bound, body)
    return [(st, Val(BOOL, q))]


def _sf_exists(self, n, st):
    return _sf_forall(self, n, st, exists=True)


def _sf_implies(self, n, st):
    a = self.truth(self.ev_pure(n.args[0], st))
    s2 = st.copy().assume(a)
    from .ev_expr import NoOutcome
    try:
        b = self.truth(self.ev_pure(n.args[1], s2))
    except NoOutcome:
        return [(st, Val(BOOL, z3.BoolVal(True)))]     # the antecedent contradicts the context: vacuously true
    return [(st, Val(BOOL, z3.Implies(a, b)))]


def _sf_old(self, n, st):
    old = st.ghost.get("__old__")
    if old is None or old.t is None:
        raise Unsupported("old() outside a postcondition")
    pre = old.t.copy()
    # names in old(...) are evaluated in the pre-state's heap, with the clause's own locals
    pre.env = {**pre.env, **{k: v for k, v in st.env.items() if k not in self.ghost_defaults}}
    for g in self.ghost_defaults:
        pre.env.pop(g, None)          # old(ghost) reads the ghost state of the pre-state
    pre.ghost["__module__"] = st.ghost.get("__module__")
    v = self.ev_pure(n.args[0], pre)
    return [(st, v)]


def _sf_hide(self, n, st):
    """hide(expr): evaluate expr without unfolding spec-function definitions (opaque / reveal discipline)."""
    prev = self.unfold_specs
    self.unfold_specs = False
    try:
        return self.ev(n.args[0], st)
    finally:
        self.unfold_specs = prev


def _sf_in_lang(self, n, st):
    from . import rx
    pat = self.ev_pure(n.args[0], st)
    subj = self.ev_pure(n.args[1], st) if not self.binder_depth else self.ev_under_binder(n.args[1], st)
    text = pat.t if pat.is_py else pat.t.as_string()
    import re as _re
    key = (text, "spec-fullmatch")
    lang = self._rx_cache.get(key)
    if lang is None:
        lang = rx.Lang(text, _re.DOTALL).fullmatch_lang()
        self._rx_cache[key] = lang
    if subj.is_py:
        subj = self.lift(subj.t)
    if subj.ty.kind == "opt":      # specifications are total: the language test of None is the test of its payload
        subj = self.unwrap(subj)
    return [(st, Val(BOOL, z3.InRe(subj.t, lang)))]


SPECIAL_FORMS = {"in_lang": _sf_in_lang, "hide": _sf_hide, "reveal": _sf_reveal, "use": _sf_use, "forall": _sf_forall, "exists": _sf_exists, "implies": _sf_implies, "old": _sf_old}

_PURE_BUILTINS = {"len", "bool", "str", "int", "repr", "isinstance", "issubclass", "sorted", "reversed", "min", "max", "any",
                  "all", "set", "frozenset", "list", "tuple", "dict", "getattr", "hasattr", "abs", "sum", "ord", "chr",
                  "enumerate", "zip", "range", "type", "callable", "id", "hash"}
