"""Symbolic values, machine state, verification conditions."""
from __future__ import annotations

import itertools
import z3

from .types import Ty, PY, BOOL, INT, STR, NONE

_counter = itertools.count()


def fresh_name(prefix):
    return f"{prefix}!{next(_counter)}"


class Unsupported(Exception):
    """A construct outside the verified subset: checker error (exit 3), never a violation."""


class Val:
    __slots__ = ("ty", "t", "meta")

    def __init__(self, ty: Ty, t, meta=None):
        self.ty, self.t, self.meta = ty, t, meta

    def __repr__(self):
        return f"Val({self.ty}, {self.t})"

    @property
    def is_py(self):
        return self.ty.kind == "py"


def py(obj):
    return Val(PY, obj)


class Exc:
    """A raised exception: the real class plus optional symbolic attributes."""

    def __init__(self, cls, attrs=None, where=None):
        self.cls, self.attrs, self.where = cls, attrs or {}, where

    def __repr__(self):
        return f"Exc({self.cls.__name__})"


class State:
    def __init__(self):
        self.env = {}
        self.heap = {}      # (class, field) -> z3 array
        self.pc = []        # path condition (list of z3 Bool)
        self.flow = None    # None | ('return', Val) | ('raise', Exc) | ('break',) | ('continue',)
        self.ghost = {}     # ghost stores (effect log, write log ...), name -> Val
        self.trace = []     # branch decisions, for path ids
        self.closure = None  # enclosing env for nested functions

    def copy(self):
        s = State()
        s.env = dict(self.env)
        s.heap = dict(self.heap)
        s.pc = list(self.pc)
        s.flow = self.flow
        s.ghost = dict(self.ghost)
        s.trace = list(self.trace)
        s.closure = self.closure
        return s

    def assume(self, cond, tag=None):
        self.pc.append(cond)
        if tag is not None:
            self.trace.append(tag)
        return self


class VC:
    """hyps |= goal.  kind: 'valid' (must be unsat when negated), 'cover' (hyps must be sat)."""

    def __init__(self, name, hyps, goal, kind="valid", inputs=None, note="", axioms=()):
        self.name, self.hyps, self.goal, self.kind = name, list(hyps), goal, kind
        self.axioms = list(axioms)   # background facts (definitions, lemma instances, model axioms); hyps = path condition
        self.inputs = inputs or {}   # display name -> z3 const (for counter-models)
        self.note = note
        self.result = None           # filled by the back ends

    def levels(self):
        """Premise selection: SMT texts with growing hypothesis sets (dropping hypotheses is sound for unsat):
        goal only; hypotheses sharing a symbol with the goal; transitive cone; path condition; everything."""
        if self.kind != "valid":
            return []
        allh = [(h, True) for h in self.hyps] + [(h, False) for h in self.axioms]
        syms = [_symbols(h) for h, _ in allh]
        gs = _symbols(self.goal)
        out, seen = [], set()

        def text(sel):
            key = tuple(sel)
            if key in seen:
                return
            seen.add(key)
            s = z3.Solver()
            for i in sel:
                s.add(allh[i][0])
            s.add(z3.Not(self.goal))
            out.append(_fix_order(s.to_smt2()))
        text([])
        cone = set(gs)
        sel = [i for i, sy in enumerate(syms) if sy & cone]
        text(sel)
        for _ in range(3):
            for i in sel:
                cone |= syms[i]
            sel2 = [i for i, sy in enumerate(syms) if sy & cone]
            if sel2 == sel:
                break
            sel = sel2
            text(sel)
        text([i for i, (h, is_pc) in enumerate(allh) if is_pc])
        full = tuple(range(len(allh)))
        if full in seen:
            out = out[:-1] if False else out
        return out if full not in seen else out[:-1] if len(out) > 1 and False else out

    def smt2(self, logic=None, with_axioms=True):
        s = z3.Solver()
        for h in self.hyps:
            s.add(h)
        if with_axioms:
            for h in self.axioms:
                s.add(h)
        if self.kind == "valid":
            s.add(z3.Not(self.goal))
        txt = _fix_order(s.to_smt2())
        return txt


_SYM_CACHE = {}
_COMMON = set()


def _symbols(e):
    """Names of uninterpreted constants/functions occurring in e (heap entry arrays excluded: they connect everything)."""
    key = e.get_id()
    hit = _SYM_CACHE.get(key)
    if hit is not None:
        return hit
    out, seen, stack = set(), set(), [e]
    while stack:
        x = stack.pop()
        i = x.get_id()
        if i in seen:
            continue
        seen.add(i)
        if z3.is_quantifier(x):
            stack.append(x.body())
            continue
        if z3.is_app(x):
            d = x.decl()
            if d.kind() == z3.Z3_OP_UNINTERPRETED:
                out.add(d.name())
            stack.extend(x.children())
    _SYM_CACHE[key] = frozenset(out)
    return _SYM_CACHE[key]


def _forms(txt):
    """top-level s-expressions of an SMT-LIB text (string literals and comments respected)"""
    out, depth, start, i, n = [], 0, None, 0, len(txt)
    while i < n:
        c = txt[i]
        if c == ";" and depth == 0:
            j = txt.find("\n", i)
            j = n if j < 0 else j
            out.append(txt[i:j])
            i = j
            continue
        if c == '"':
            j = i + 1
            while j < n:
                if txt[j] == '"':
                    if j + 1 < n and txt[j + 1] == '"':
                        j += 2
                        continue
                    break
                j += 1
            i = j + 1
            continue
        if c == "|":
            j = txt.find("|", i + 1)
            i = (j if j >= 0 else n) + 1
            continue
        if c == "(":
            if depth == 0:
                start = i
            depth += 1
        elif c == ")":
            depth -= 1
            if depth == 0 and start is not None:
                out.append(txt[start:i + 1])
                start = None
        i += 1
    return out


def _fix_order(txt):
    """z3's printer may emit declare-datatypes before the sorts / datatypes they depend on: put declare-sort first and
    order the datatype declarations by dependency."""
    import re
    forms = _forms(txt)
    head = [f for f in forms if f.startswith(";") or f.startswith("(set-")]
    sorts = [f for f in forms if f.startswith("(declare-sort ")]
    dts = [f for f in forms if f.startswith("(declare-datatypes")]
    rest = [f for f in forms if f not in head and not f.startswith("(declare-sort ") and not f.startswith("(declare-datatypes")]
    if not dts and not sorts:
        return txt
    names = {}
    for f in dts:
        m = re.match(r"\(declare-datatypes\s*\(\((\S+)\s+\d+\)", f)
        names[f] = m.group(1) if m else None
    declared = set(n for n in names.values() if n)
    ordered, emitted, pending = [], set(), list(dts)
    while pending:
        progress = False
        for f in list(pending):
            deps = {d for d in declared if d != names[f] and re.search(r"(?<![\w.\-])" + re.escape(d) + r"(?![\w.\-])", f)}
            if deps <= emitted:
                ordered.append(f)
                emitted.add(names[f])
                pending.remove(f)
                progress = True
        if not progress:
            ordered += pending
            break
    return "\n".join(head + sorts + ordered + rest) + "\n"
