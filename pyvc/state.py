"""Symbolic values, machine state, verification conditions."""
from __future__ import annotations

import itertools
import z3

from .types import Ty, PY, BOOL, INT, STR, NONE

_counter = itertools.count()


def fresh_name(prefix):
    return f"{prefix}!{next(_counter)}"


class Unsupported(Exception):
    """A construct outside the verified subset: checker error (exit 3), never a violation."""


class Val:
    __slots__ = ("ty", "t", "meta")

    def __init__(self, ty: Ty, t, meta=None):
        self.ty, self.t, self.meta = ty, t, meta

    def __repr__(self):
        return f"Val({self.ty}, {self.t})"

    @property
    def is_py(self):
        return self.ty.kind == "py"


def py(obj):
    return Val(PY, obj)


class Exc:
    """A raised exception: the real class plus optional symbolic attributes."""

    def __init__(self, cls, attrs=None, where=None):
        self.cls, self.attrs, self.where = cls, attrs or {}, where

    def __repr__(self):
        return f"Exc({self.cls.__name__})"


class State:
    def __init__(self):
        self.env = {}
        self.heap = {}      # (class, field) -> z3 array
        self.pc = []        # path condition (list of z3 Bool)
        self.flow = None    # None | ('return', Val) | ('raise', Exc) | ('break',) | ('continue',)
        self.ghost = {}     # ghost stores (effect log, write log ...), name -> Val
        self.trace = []     # branch decisions, for path ids
        self.closure = None  # enclosing env for nested functions

    def copy(self):
        s = State()
        s.env = dict(self.env)
        s.heap = dict(self.heap)
        s.pc = list(self.pc)
        s.flow = self.flow
        s.ghost = dict(self.ghost)
        s.trace = list(self.trace)
        s.closure = self.closure
        return s

    def assume(self, cond, tag=None):
        self.pc.append(cond)
        if tag is not None:
            self.trace.append(tag)
        return self


class VC:
    """hyps |= goal.  kind: 'valid' (must be unsat when negated), 'cover' (hyps must be sat)."""

    def __init__(self, name, hyps, goal, kind="valid", inputs=None, note=""):
        self.name, self.hyps, self.goal, self.kind = name, list(hyps), goal, kind
        self.inputs = inputs or {}   # display name -> z3 const (for counter-models)
        self.note = note
        self.result = None           # filled by the back ends

    def smt2(self, logic=None):
        s = z3.Solver()
        for h in self.hyps:
            s.add(h)
        if self.kind == "valid":
            s.add(z3.Not(self.goal))
        txt = s.to_smt2()
        return txt
