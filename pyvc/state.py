"""Symbolic values, machine state, verification conditions."""
from __future__ import annotations

import itertools
import z3

from .types import Ty, PY, BOOL, INT, STR, NONE

_counter = itertools.count()


def fresh_name(prefix):
    return f"{prefix}!{next(_counter)}"


class Unsupported(Exception):
    """A construct outside the verified subset: checker error (exit 3), never a violation."""


class Val:
    __slots__ = ("ty", "t", "meta")

    def __init__(self, ty: Ty, t, meta=None):
        self.ty, self.t, self.meta = ty, t, meta

    def __repr__(self):
        return f"Val({self.ty}, {self.t})"

    @property
    def is_py(self):
        return self.ty.kind == "py"


def py(obj):
    return Val(PY, obj)


class Exc:
    """A raised exception: the real class plus optional symbolic attributes."""

    def __init__(self, cls, attrs=None, where=None):
        self.cls, self.attrs, self.where = cls, attrs or {}, where

    def __repr__(self):
        return f"Exc({self.cls.__name__})"


class State:
    def __init__(self):
        self.env = {}
        self.heap = {}      # (class, field) -> z3 array
        self.pc = []        # path condition (list of z3 Bool)
        self.flow = None    # None | ('return', Val) | ('raise', Exc) | ('break',) | ('continue',)
        self.ghost = {}     # ghost stores (effect log, write log ...), name -> Val
        self.trace = []     # branch decisions, for path ids
        self.closure = None  # enclosing env for nested functions

    def copy(self):
        s = State()
        s.env = dict(self.env)
        s.heap = dict(self.heap)
        s.pc = list(self.pc)
        s.flow = self.flow
        s.ghost = dict(self.ghost)
        s.trace = list(self.trace)
        s.closure = self.closure
        return s

    def assume(self, cond, tag=None):
        self.pc.append(cond)
        if tag is not None:
            self.trace.append(tag)
        return self


class VC:
    """hyps |= goal.  kind: 'valid' (must be unsat when negated), 'cover' (hyps must be sat)."""

    def __init__(self, name, hyps, goal, kind="valid", inputs=None, note="", axioms=()):
        self.name, self.hyps, self.goal, self.kind = name, list(hyps), goal, kind
        self.axioms = list(axioms)   # background facts (definitions, lemma instances, model axioms); hyps = path condition
        self.inputs = inputs or {}   # display name -> z3 const (for counter-models)
        self.note = note
        self.result = None           # filled by the back ends

    def levels(self):
        """Premise selection: SMT texts with growing hypothesis sets (dropping hypotheses is sound for unsat):
        goal only; hypotheses sharing a symbol with the goal; transitive cone; path condition; everything."""
        if self.kind != "valid":
            return []
        allh = [(h, True) for h in self.hyps] + [(h, False) for h in self.axioms]
        syms = [_symbols(h) for h, _ in allh]
        gs = _symbols(self.goal)
        out, seen = [], set()

        def text(sel):
            key = tuple(sel)
            if key in seen:
                return
            seen.add(key)
            s = z3.Solver()
            for i in sel:
                s.add(allh[i][0])
            s.add(z3.Not(self.goal))
            out.append(_fix_order(s.to_smt2()))
        text([])
        cone = set(gs)
        sel = [i for i, sy in enumerate(syms) if sy & cone]
        text(sel)
        for _ in range(3):
            for i in sel:
                cone |= syms[i]
            sel2 = [i for i, sy in enumerate(syms) if sy & cone]
            if sel2 == sel:
                break
            sel = sel2
            text(sel)
        text([i for i, (h, is_pc) in enumerate(allh) if is_pc])
        full = tuple(range(len(allh)))
        if full in seen:
            out = out[:-1] if False else out
        return out if full not in seen else out[:-1] if len(out) > 1 and False else out

    def smt2(self, logic=None, with_axioms=True):
        s = z3.Solver()
        for h in self.hyps:
            s.add(h)
        if with_axioms:
            for h in self.axioms:
                s.add(h)
        if self.kind == "valid":
            s.add(z3.Not(self.goal))
        txt = _fix_order(s.to_smt2())
        return txt


_SYM_CACHE = {}
_COMMON = set()


def _symbols(e):
    """Names of uninterpreted constants/functions occurring in e (heap entry arrays excluded: they connect everything)."""
    key = e.get_id()
    hit = _SYM_CACHE.get(key)
    if hit is not None:
        return hit
    out, seen, stack = set(), set(), [e]
    while stack:
        x = stack.pop()
        i = x.get_id()
        if i in seen:
            continue
        seen.add(i)
        if z3.is_quantifier(x):
            stack.append(x.body())
            continue
        if z3.is_app(x):
            d = x.decl()
            if d.kind() == z3.Z3_OP_UNINTERPRETED:
                out.add(d.name())
            stack.extend(x.children())
    _SYM_CACHE[key] = frozenset(out)
    return _SYM_CACHE[key]


def _fix_order(txt):
    """z3's printer may emit declare-datatypes before the declare-sort lines they depend on."""
    lines = txt.split("\n")
    sorts = [l for l in lines if l.startswith("(declare-sort ")]
    if not sorts:
        return txt
    rest = [l for l in lines if not l.startswith("(declare-sort ")]
    # keep leading comment/set-info lines first
    k = 0
    while k < len(rest) and (rest[k].startswith(";") or rest[k].startswith("(set-")):
        k += 1
    return "\n".join(rest[:k] + sorts + rest[k:])
