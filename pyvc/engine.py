"""The verifier: loads the real source, symbolically executes functions against their sidecar
contracts and produces verification conditions."""
from __future__ import annotations

import ast
import collections
import hashlib
import importlib
import inspect
import sys
import textwrap
import z3

from .state import Val, py, Unsupported, Exc, State, VC, fresh_name
from .types import Registry, INT, BOOL, STR, NONE, PY, TOpt, TSet, TDict, TSeq, TTuple, Ty
from .ops import OpsMixin
from .ev_expr import ExprMixin, Closure
from .ev_call import CallMixin, BoundMethod
from .ev_stmt import StmtMixin
from .builtins_ import BuiltinsMixin, SPECIAL_FORMS
from . import api


class Source:
    """ASTs of the real modules, re-read from the working tree on every run."""

    def __init__(self):
        self.modules = {}
        self.dropped = collections.Counter()

    def module_ast(self, module):
        name = module.__name__
        if name not in self.modules:
            path = inspect.getsourcefile(module)
            with open(path, encoding="utf-8") as fp:
                txt = fp.read()
            self.modules[name] = (ast.parse(txt), path, txt)
        return self.modules[name]

    def function(self, func):
        """-> (FunctionDef node, module object) located by qualified name in the CURRENT source."""
        module = sys.modules[func.__module__]
        tree, path, txt = self.module_ast(module)
        qual = func.__qualname__
        node = self.find(tree, qual.split("."))
        if node is None:
            # lambdas / decorated: fall back to line lookup
            try:
                lines, start = inspect.getsourcelines(func)
            except OSError:
                raise Unsupported(f"no source for {func.__module__}.{qual}")
            want = list(func.__code__.co_varnames[:func.__code__.co_argcount])
            cands = [n for n in ast.walk(tree)
                     if isinstance(n, (ast.FunctionDef, ast.Lambda)) and getattr(n, "lineno", -1) == start
                     and (isinstance(n, ast.Lambda) or n.name == func.__name__)]
            exact = [n for n in cands if [a.arg for a in n.args.args] == want]
            if len(exact) > 1:
                raise Unsupported(f"several lambdas with the same parameters on line {start} of {path}: put them on separate lines")
            node = exact[0] if exact else (cands[0] if cands else None)
        if node is None:
            raise Unsupported(f"function {func.__module__}.{qual} not found in source")
        return node, module

    def find(self, tree, parts):
        body = tree.body
        node = None
        for p in parts:
            if p == "<locals>":
                continue
            found = None
            for n in body:
                if isinstance(n, (ast.FunctionDef, ast.ClassDef, ast.AsyncFunctionDef)) and n.name == p:
                    found = n
            if found is None:
                return None
            node = found
            body = found.body
        return node if isinstance(node, ast.FunctionDef) else None

    def find_qual(self, modname, qual):
        module = importlib.import_module(modname)
        tree, path, txt = self.module_ast(module)
        return self.find(tree, qual.split(".")), module

    def fingerprint(self, node):
        return hashlib.sha1(ast.dump(node, include_attributes=False).encode()).hexdigest()[:12]


class Engine(OpsMixin, ExprMixin, CallMixin, StmtMixin, BuiltinsMixin):
    def __init__(self):
        self.reg = Registry()
        self.source = Source()
        self.contracts = api.CONTRACTS
        self.spec_funcs = api.SPEC_FUNCS
        self.inline_ok = set()
        self.func_models = {}       # python callable (or qualname) -> model(engine, st, args, kwargs, node)
        self.method_models = {}     # (type name, method) -> model(engine, st, recv, name, args, kwargs, node)
        self.attr_models = {}       # (type name, attr) -> model(engine, st, base, node)
        self.py_attr_models = {}
        self.with_models = {}
        self.truth_hooks = {}
        self.subscript_models = {}
        self.binop_models = {}
        self.ufun_rewrites = {}
        self.const_overrides = {}   # (module name, global name) -> python object standing in for a module-level table
        self.py_method_models = {}
        self.ghost_defaults = {}    # ghost state present in every function verification: name -> fn(engine) -> Val
        self.coerce_hooks = {}
        self.binder_depth = 0
        self.truth_only = False
        self._bcount = 0
        self._in_binder_expr = False
        self.isinstance_hooks = {}
        self.data_defaults = {}
        self.special_forms = dict(SPECIAL_FORMS)
        self.splitlines_axioms = None
        self._ufs = {}
        self._comp_cache = {}
        self._elems_done = set()
        self.lemmas_used = set()
        self.using_lemma = 0
        self.heap_reads = set()
        self._quant_cache = {}
        self._rx_cache = {}
        self._strip_done = set()
        self.axioms = []
        self.case_splits = []
        self.abrupt = []
        self.vcs = []
        self.trivial = []
        self._vc_names = {}
        self.stats = collections.Counter()
        self.feas_timeout_ms = 200
        self.max_paths = 4000
        self.depth = 0
        self.spec_mode = False
        self.spec_stack = []
        self.unfold_specs = True
        self.current = None
        self.current_measure = None
        self.current_inputs = {}
        self.current_loop_types = {}
        self.current_loop_ghost = []
        self.loop_index = {}
        self.vc_prefix = ""
        self.functions_verified = []
        self.install_default_models()

    # ---- default models for stdlib helpers ------------------------------------------------------
    def install_default_models(self):
        import contextlib, typing

        def m_suppress(self, s, args, kw, node):
            return [(s, py(("suppress", tuple(a.t for a in args))))]
        self.func_models[contextlib.suppress] = m_suppress

        def m_cast(self, s, args, kw, node):
            return [(s, args[1])]
        self.func_models[typing.cast] = m_cast

        def m_i18n(self, s, args, kw, node):
            return [(s, args[0])]
        self.func_models["reuse.i18n._"] = m_i18n
        import gettext as _gt

        def m_gettext(self, s, args, kw, node):
            return [(s, args[1])]       # bound method: (translations, message) -> message (extraction drops i18n)
        self.func_models[_gt.NullTranslations.gettext] = m_gettext
        self.func_models[_gt.GNUTranslations.gettext] = m_gettext

    # ---- verification of one function against its contract -----------------------------------------
    def index_loops(self, fnode):
        loops = sorted((n for n in ast.walk(fnode) if isinstance(n, (ast.For, ast.While))),
                       key=lambda n: (n.lineno, n.col_offset))   # ordinals follow source order
        for k, n in enumerate(loops):
            self.loop_index[id(n)] = k
        return len(loops)

    def resolve(self, qualname):
        """qualified name -> (python function object)."""
        parts = qualname.split(".")
        for i in range(len(parts), 0, -1):
            modname = ".".join(parts[:i])
            try:
                mod = importlib.import_module(modname)
            except ImportError:
                continue
            obj = mod
            ok = True
            for p in parts[i:]:
                if p == "<locals>":
                    ok = False
                    break
                try:
                    obj = inspect.getattr_static(obj, p)
                except AttributeError:
                    ok = False
                    break
                if isinstance(obj, (classmethod, staticmethod)):
                    obj = obj.__func__
                if isinstance(obj, property):
                    obj = obj.fget
            if ok:
                if hasattr(obj, "callback") and not inspect.isfunction(obj):   # click.Command -> its callback
                    obj = obj.callback
                while hasattr(obj, "__wrapped__"):                              # click.pass_obj & co.
                    obj = obj.__wrapped__
                return obj
        raise Unsupported(f"cannot resolve {qualname}")

    def verify_function(self, qualname, prop):
        c = self.contracts[qualname]
        func = self.resolve(qualname)
        fnode, module, tys, ret = self.contract_param_types(c, func)
        nloops = self.index_loops(fnode)
        for k in c.loops:
            if k >= nloops:
                raise Unsupported(f"{qualname}: loop contract #{k} but the function has {nloops} loops")
        self.current = c
        self.vc_prefix = f"{prop}/{qualname}"
        n0 = len(self.vcs)
        self.axioms = []
        self.case_splits = []
        self._elems_done = set()
        self._comp_cache = {}
        st = State()
        st.ghost["__module__"] = py(module)
        st.ghost["__func__"] = py(func.__qualname__)
        st.ghost["__alias__"] = {}
        env = {}
        inputs = {}
        is_classmethod = any(isinstance(d, ast.Name) and d.id == "classmethod" for d in fnode.decorator_list)
        for idx_, (p, ty) in enumerate(tys.items()):
            if idx_ == 0 and is_classmethod:
                owner = self.resolve(qualname.rsplit(".", 1)[0])
                env[p] = py(owner)
                continue
            if ty is None or ty.kind == "py":
                pv = c.types.get(p)
                if pv is not None and not isinstance(pv, str):
                    env[p] = py(pv)   # concrete python object supplied by the contract (e.g. a style class)
                    continue
                raise Unsupported(f"{qualname}: parameter {p} has no usable type; declare it in the contract")
            v = self.fresh(ty, p)
            env[p] = v
            inputs[p] = v
        for g, gty in c.ghost.items():
            gv = self.fresh(self.reg.parse(gty), g)
            env[g] = gv
            inputs[g] = gv
        st.env = dict(env)
        self.current_inputs = {k: v.t for k, v in inputs.items()}
        for gname, gfn in self.ghost_defaults.items():
            st.ghost[gname] = gfn(self)
        for oname, ofn in c.observe.items():
            import inspect as _i
            ov = self.eval_spec_fn(st, ofn, {p_: env[p_] for p_ in _i.signature(ofn).parameters})
            if not ov.is_py and ov.ty.kind in ("str", "int", "bool"):
                oc = z3.Const(f"obs_{oname}", self.reg.sort(ov.ty))
                st.pc.append(oc == ov.t)
                self.current_inputs[oname] = oc
        if c.pre is not None:
            st.assume(self.truth(self.eval_spec_fn(st, c.pre, env)), "pre")
            self.vcs.append(VC(f"{self.vc_prefix}/cover/pre", list(st.pc), z3.BoolVal(True), kind="cover",
                               note="precondition is satisfiable"))
        if c.decreases is not None:
            self.current_measure = self.eval_spec_fn(st, c.decreases, env)
        pre_state = st.copy()
        if c.ghost_init is not None:
            c.ghost_init(self, st)      # ghost effects of entering the function (after the pre-state snapshot)
        # materialise every declared heap field so that frame conditions can be stated against the entry heap
        for cls_, flds_ in self.reg.fields.items():
            if self.reg.kind.get(cls_) == "ref":
                for f_ in flds_:
                    self.heap_array(st, cls_, f_)
        pre_state.heap = dict(st.heap)
        finals = self.exec_block(fnode.body, st.copy())
        exits = collections.Counter()
        for s in finals:
            flow = s.flow
            if flow is None or flow[0] == "return":
                result = flow[1] if flow else Val(NONE, None)
                exits["return"] += 1
                if ret is not None and ret.kind != "py":
                    result = self.coerce(result, ret)
                if c.fresh_result:
                    news = s.ghost.get("__new__", {}).get(ret.name, [])
                    saved_flow, s.flow = s.flow, None
                    self.emit(s, "fresh-result", z3.Or(*[result.t == r for r in news]) if news else z3.BoolVal(False),
                              note="the returned object is allocated by this call")
                    s.flow = saved_flow
                if c.post is not None:
                    amap = {**s.env, **env}     # clause parameters may also name locals alive at the exit
                    amap["result"] = result
                    if "yielded" in inspect.signature(c.post).parameters:
                        amap["yielded"] = s.ghost.get("__yielded__")
                    s.flow = None
                    post = self.eval_spec_fn(s, c.post, amap, pre_state=pre_state)
                    self.emit(s, "post/return", self.truth(post), note="postcondition at normal exit")
                for exc_cls, cond_fn in c.raises_iff.items():
                    cond = self.eval_spec_fn(s, cond_fn, env)
                    self.emit(s, f"raises-iff/{exc_cls.__name__}/return", z3.Not(self.truth(cond)),
                              note=f"returns normally only when {exc_cls.__name__} condition is false")
            elif flow[0] == "raise":
                exc = flow[1]
                exits["raise:" + exc.cls.__name__] += 1
                allowed = [(k, f) for k, f in list(c.raises.items()) + list(c.raises_iff.items()) if issubclass(exc.cls, k)]
                s.flow = None
                if not allowed:
                    self.emit(s, f"raises/{exc.cls.__name__}", z3.BoolVal(False),
                              note=f"{exc.cls.__name__} escapes but the contract does not allow it (line {getattr(exc.where, 'lineno', '?')})")
                else:
                    conds = []
                    for k, f in allowed:
                        conds.append(z3.BoolVal(True) if f is None else self.truth(self.eval_spec_fn(s, f, env)))
                    self.emit(s, f"raises/{exc.cls.__name__}", z3.Or(*conds), note="exception raised only under its stated condition")
                    for k, f in allowed:
                        ep = c.exc_post.get(k)
                        if ep is not None:
                            amap = {**s.env, **env}
                            for an, av in exc.attrs.items():
                                if isinstance(av, Val):
                                    amap["exc_" + an] = av
                            self.emit(s, f"exc-post/{exc.cls.__name__}", self.truth(self.eval_spec_fn(s, ep, amap, pre_state=pre_state)),
                                      note="state relation at exceptional exit")
            else:
                raise Unsupported(f"{qualname}: flow {flow[0]} at function end")
        for s in finals:
            self.frame_obligations(s, pre_state, c)
        if not finals:
            raise Unsupported(f"{qualname}: no feasible exit (contradictory precondition?)")
        self.functions_verified.append({
            "function": qualname, "file": inspect.getsourcefile(func), "lines": [fnode.lineno, fnode.end_lineno],
            "ast_sha1": self.source.fingerprint(fnode), "paths": len(finals), "exits": dict(exits),
            "obligations": len(self.vcs) - n0,
        })
        self.current = None
        self.current_measure = None
        return self.vcs[n0:]

    def frame_obligations(self, s, pre_state, c):
        """Every heap field the body wrote must be listed in the contract's frame (modifies), except on objects
        the function allocated itself."""
        # ghost state (file-system effect sets ...) not listed in the contract's frame must be unchanged
        for g in self.ghost_defaults:
            if g in c.modifies_ghost:
                continue
            cur, old = s.ghost.get(g), pre_state.ghost.get(g)
            if cur is None or old is None or cur.t.eq(old.t):
                continue
            saved = s.flow
            s.flow = None
            self.emit(s, f"frame/{g}", cur.t == old.t, note=f"ghost state {g} changes but is not in the contract's frame (effects)")
            s.flow = saved
        allowed = set(m.split("@")[0] for m in c.modifies if "@" not in m)
        targeted = {}
        for m in c.modifies:
            if "@" in m:
                fld, par = m.split("@")
                targeted.setdefault(fld, []).append(pre_state.env[par].t)
        news = s.ghost.get("__new__", {})
        for (cls, fld), arr in s.heap.items():
            arr0 = pre_state.heap.get((cls, fld))
            if arr0 is None or arr.eq(arr0) or f"{cls}.{fld}" in allowed:
                continue
            o = z3.Const(fresh_name("frame_o"), self.reg.sort(self.reg.ty_of_class(cls)))
            fresh_objs = [r for r in news.get(cls, [])] + targeted.get(f"{cls}.{fld}", [])
            goal = z3.Or(*([o == r for r in fresh_objs] + [z3.Select(arr, o) == z3.Select(arr0, o)]))
            saved = s.flow
            s.flow = None
            self.emit(s, f"frame/{cls}.{fld}", goal, note=f"{cls}.{fld} is written but not in the contract's frame")
            s.flow = saved

    def verify_lemma(self, lem, prop):
        self.axioms = []
        self.case_splits = []
        self._elems_done = set()
        self._comp_cache = {}
        self.vc_prefix = f"{prop}/lemma"
        st = State()
        st.ghost["__module__"] = py(sys.modules[lem.fn.__module__])
        env = {}
        for p, t in lem.types.items():
            env[p] = self.fresh(self.reg.parse(t), p)
        self.current_inputs = {k: v.t for k, v in env.items()}
        n0 = len(self.vcs)
        goal = self.truth(self.eval_spec_fn(st, lem.fn, env))
        # hypotheses of a top-level implication become premises (so that premise selection applies)
        while z3.is_implies(goal):
            ant = goal.arg(0)
            for c_ in (ant.children() if z3.is_and(ant) else [ant]):
                st.pc.append(c_)
            goal = goal.arg(1)
        self.emit(st, lem.name, goal, note="lemma over contracts/spec functions")
        return self.vcs[n0:]
