"""Attribute access, calls, inlining and contract application."""
from __future__ import annotations

import ast
import inspect
import types as pytypes
import z3

from .state import Val, py, Unsupported, Exc, State, VC, fresh_name
from .types import INT, BOOL, STR, NONE, PY, TOpt, TSet, TDict, TSeq, TTuple, Ty
from .ev_expr import Closure


class BoundMethod:
    def __init__(self, recv: Val, name: str, func=None, lv=None):
        self.recv, self.name, self.func, self.lv = recv, name, func, lv


class CallMixin:
    # ---- attribute access ------------------------------------------------------------
    def getattr(self, s, base: Val, attr: str, node=None):
        k = base.ty.kind
        if k == "py":
            obj = base.t
            if isinstance(obj, Val):
                return self.getattr(s, obj, attr, node)
            hook = self.py_attr_models.get((type(obj), attr))
            if hook is not None:
                return hook(self, s, base, node)
            if isinstance(obj, (set, frozenset, list, dict, str, tuple)) and attr in _BUILTIN_METHODS:
                return [(s, py(BoundMethod(base, attr, lv=self._lvalue(node.value) if node is not None else None)))]
            try:
                val = inspect.getattr_static(obj, attr)
            except AttributeError:
                self.raise_(s, AttributeError, where=node)
                return []
            if isinstance(val, property):
                return self.call_function(s, val.fget, [base], {}, node)
            if isinstance(obj, type) or inspect.ismodule(obj):
                real = getattr(obj, attr)
                if isinstance(val, (classmethod,)):
                    return [(s, py(BoundMethod(base, attr, val.__func__)))]
                if isinstance(val, staticmethod):
                    return [(s, py(val.__func__))]
                return [(s, self.lift(real))]
            if isinstance(val, pytypes.FunctionType):
                return [(s, py(BoundMethod(base, attr, val)))]
            if isinstance(val, (classmethod,)):
                return [(s, py(BoundMethod(py(type(obj)), attr, val.__func__)))]
            return [(s, self.lift(getattr(obj, attr)))]
        if k == "opt" and self.spec_mode:
            return self.getattr(s, self.unwrap(base), attr, node)   # specifications are total: value unspecified on None
        if k == "opt":
            isn = self.is_none(base)
            bad, ok = self.branch(s, isn, "none?")
            if bad is not None:
                self.raise_(bad, AttributeError, where=node)
            if ok is None:
                return []
            return self.getattr(ok, self.unwrap(base), attr, node)
        if k == "none":
            self.raise_(s, AttributeError, where=node)
            return []
        if k in ("ref", "data", "abs", "enum"):
            name = base.ty.name
            model = self.attr_models.get((name, attr))
            if model is not None:
                return model(self, s, base, node)
            flds = self.reg.fields.get(name, {})
            if attr in flds:
                return [(s, self.read_field(s, base, attr))]
            cls = self.reg.pyclass.get(name)
            if cls is not None:
                try:
                    val = inspect.getattr_static(cls, attr)
                except AttributeError:
                    val = None
                if isinstance(val, property):
                    return self.call_function(s, val.fget, [base], {}, node)
                if isinstance(val, pytypes.FunctionType):
                    return [(s, py(BoundMethod(base, attr, val)))]
                if isinstance(val, classmethod):
                    return [(s, py(BoundMethod(py(cls), attr, val.__func__)))]
                if isinstance(val, staticmethod):
                    return [(s, py(val.__func__))]
                if val is not None and not hasattr(val, "__get__"):
                    return [(s, self.lift(val))]
            if (name, attr) in self.method_models or (name, "*") in self.method_models:
                return [(s, py(BoundMethod(base, attr)))]
            raise Unsupported(f"attribute {name}.{attr}")
        if k in ("str", "set", "dict", "seq", "tuple", "int", "bool"):
            lv = None
            if node is not None:
                lv = self._lvalue(node.value)
            return [(s, py(BoundMethod(base, attr, lv=lv)))]
        raise Unsupported(f"attribute {attr} of {base.ty}")

    def read_field(self, s, obj: Val, field: str) -> Val:
        name = obj.ty.name
        fty = self.reg.parse(self.reg.fields[name][field])
        if obj.ty.kind == "data":
            srt = self.reg.sort(obj.ty)
            idx = list(self.reg.fields[name]).index(field)
            return Val(fty, srt.accessor(0, idx)(obj.t))
        arr = self.heap_array(s, name, field)
        self.heap_reads.add(f"{name}.{field}")
        # read-over-write on the syntactically same object: keeps terms (e.g. list concatenations) visible
        if z3.is_store(arr) and arr.arg(1).eq(obj.t):
            return Val(fty, arr.arg(2))
        return Val(fty, z3.Select(arr, obj.t))

    def heap_array(self, s, cls, field):
        key = (cls, field)
        if key not in s.heap:
            fty = self.reg.parse(self.reg.fields[cls][field])
            s.heap[key] = z3.Const(f"heap0_{cls}_{field}", z3.ArraySort(self.reg.sort(self.reg.ty_of_class(cls)), self.reg.sort(fty)))
        return s.heap[key]

    def write_field(self, s, obj: Val, field: str, v: Val):
        name = obj.ty.name
        if obj.ty.kind == "data":
            # In-place mutation of a collection held by a frozen record (e.g. info.copyright_lines.clear()): the record is
            # shared with whoever handed it in, so this is a write outside every frame.  Frame obligation: the statement
            # must be unreachable.  (The path continues with the record unchanged: value semantics.)
            self.emit(s, f"frame/frozen-{name}.{field}-not-mutated", z3.BoolVal(False),
                      note=f"in-place mutation of {name}.{field}, a collection held by a frozen value shared with the caller")
            return
        if obj.ty.kind != "ref":
            raise Unsupported(f"assignment to field of immutable {name}")
        fty = self.reg.parse(self.reg.fields[name][field])
        v = self.coerce(v, fty)
        arr = self.heap_array(s, name, field)
        s.heap[(name, field)] = z3.Store(arr, obj.t, v.t)

    # ---- lvalues (for mutation through method calls) ------------------------------------
    def _lvalue(self, node):
        """A syntactic access path or None."""
        if isinstance(node, ast.Name):
            return ("name", node.id)
        if isinstance(node, ast.Attribute):
            b = self._lvalue(node.value)
            return ("attr", b, node.attr, node.value) if b is not None else None
        if isinstance(node, ast.Subscript) and not isinstance(node.slice, ast.Slice):
            b = self._lvalue(node.value)
            return ("item", b, node.slice, node.value) if b is not None else None
        if (isinstance(node, ast.Call) and isinstance(node.func, ast.Attribute)
                and node.func.attr == "setdefault" and len(node.args) == 2):
            b = self._lvalue(node.func.value)
            return ("setdefault", b, node.args[0], node.args[1], node.func.value) if b is not None else None
        return None

    def store_lvalue(self, s, lv, newval: Val):
        """Write newval back through an access path (single-path: sub-expressions must be pure)."""
        kind = lv[0]
        if kind == "name":
            if lv[1] not in s.env:
                raise Unsupported(f"mutation of non-local {lv[1]}")
            old = s.env[lv[1]]
            s.env[lv[1]] = self.coerce(newval, old.ty) if not old.is_py and not (old.meta and old.meta.get("empty")) else newval
            alias = s.ghost.get("__alias__", {}).get(lv[1])
            if alias is not None:
                self.store_lvalue(s, alias, newval)
            return
        if kind == "attr":
            base = self.ev_pure(lv[3], s)
            if base.is_py:
                raise Unsupported(f"mutation of attribute {lv[2]} of a python object")
            self.write_field(s, base, lv[2], newval)
            return
        if kind in ("item", "setdefault"):
            cont = self.ev_pure(lv[-1], s)
            key = self.ev_pure(lv[2], s)
            if cont.ty.kind != "dict":
                raise Unsupported("item mutation on non-dict")
            self.store_lvalue(s, lv[1], self.dict_set(cont, key, newval))
            return
        raise Unsupported("lvalue kind")

    # ---- calls ----------------------------------------------------------------------------
    def ev_Call(self, n, st):
        special = self.special_form(n, st)
        if special is not None:
            return special
        outs = []
        for s, f in self.ev(n.func, st):
            argnodes = []
            for a in n.args:
                if isinstance(a, ast.Starred):
                    raise Unsupported("*args at call site")
                argnodes.append(a)
            kwnames = []
            for kw in n.keywords:
                if kw.arg is None:
                    kwnames.append(None)
                else:
                    kwnames.append(kw.arg)
            for s2, vals in self.ev_many(argnodes + [kw.value for kw in n.keywords], s):
                args = vals[:len(argnodes)]
                kwargs = {}
                for name, v in zip(kwnames, vals[len(argnodes):]):
                    if name is None:
                        if v.is_py and isinstance(v.t, dict):
                            for k2, v2 in v.t.items():
                                kwargs[k2] = v2 if isinstance(v2, Val) else self.lift(v2)
                        else:
                            raise Unsupported("**kwargs of symbolic dict")
                    else:
                        kwargs[name] = v
                outs += self.call(s2, f, args, kwargs, n)
        return outs

    def special_form(self, n, st):
        """Forms that need the unevaluated AST: generator arguments, spec quantifiers, old()."""
        f = n.func
        fname = f.id if isinstance(f, ast.Name) else None
        if fname in self.special_forms and fname not in st.env:
            return self.special_forms[fname](self, n, st)
        if n.args and isinstance(n.args[0], (ast.GeneratorExp,)) and len(n.args) == 1:
            if fname in ("any", "all", "set", "list", "sorted", "tuple", "sum", "next", "min", "max"):
                return self.call_on_generator(fname, n.args[0], st, n)
            if isinstance(f, ast.Attribute) and f.attr == "join":
                return self.join_generator(f.value, n.args[0], st, n)
        return None

    def call(self, s, f: Val, args, kwargs, node=None):
        if not f.is_py:
            raise Unsupported(f"call of non-callable {f.ty}")
        obj = f.t
        if isinstance(obj, BoundMethod):
            return self.call_bound(s, obj, args, kwargs, node)
        if isinstance(obj, Closure):
            return self.inline_closure(s, obj, args, kwargs, node)
        if isinstance(obj, pytypes.MethodType):
            return self.call_function(s, obj.__func__, [self.lift(obj.__self__)] + args, kwargs, node)
        try:
            model = self.func_models.get(obj)
        except TypeError:
            model = None
        if model is not None:
            return model(self, s, args, kwargs, node)
        from .api import UFun
        if isinstance(obj, UFun):
            tys = [self.reg.parse(t) for t in obj.argtypes]
            rty = self.reg.parse(obj.rettype)
            f = self.uf("ghost_" + obj.name, [self.reg.sort(t) for t in tys], self.reg.sort(rty))
            cargs = [self.coerce(a, t) for a, t in zip(args, tys)]
            rw = self.ufun_rewrites.get(obj.name)
            if rw is not None:
                r = rw(self, cargs)
                if r is not None:
                    return [(s, r)]
            return [(s, Val(rty, f(*[a.t for a in cargs])))]
        if isinstance(obj, type):
            return self.construct(s, obj, args, kwargs, node)
        if isinstance(obj, pytypes.FunctionType):
            return self.call_function(s, obj, args, kwargs, node)
        if isinstance(obj, pytypes.BuiltinFunctionType):
            import re as _re
            if isinstance(getattr(obj, "__self__", None), _re.Pattern):
                return self.re_call(s, obj.__self__, obj.__name__, args, kwargs, node)
            return self.call_builtin(s, obj, args, kwargs, node)
        if callable(obj) and all(a.is_py for a in args) and not kwargs and getattr(obj, "__module__", "").startswith("pyvc"):
            return [(s, self.lift(obj(*[a.t for a in args])))]
        raise Unsupported(f"call of {obj!r}")

    def re_call(self, s, pattern, method, args, kwargs, node):
        """pattern.match/search/fullmatch(subject) on a symbolic subject: truthiness is language membership
        (pyvc.rx); the Match object itself is not modelled here (captures: see the capture calculus)."""
        from . import rx
        subj = args[0]
        if subj.is_py:
            subj = self.lift(subj.t)
        if len(args) > 1 or kwargs:
            raise Unsupported("re method with pos/endpos")
        if subj.ty.kind == "opt":
            some, none = self.branch(s, z3.Not(self.is_none(subj)), "re-subject")
            if none is not None:
                self.raise_(none, TypeError)
            if some is None:
                return []
            s, subj = some, self.unwrap(subj)
        if method not in ("match", "search", "fullmatch"):
            raise Unsupported(f"re.Pattern.{method} on a symbolic subject")
        key = (pattern.pattern, pattern.flags, method)
        lang = self._rx_cache.get(key)
        if lang is None:
            try:
                L = rx.Lang(pattern)
                lang = {"match": L.match_lang, "search": L.search_lang, "fullmatch": L.fullmatch_lang}[method]()
            except rx.RxUnsupported as e:
                raise Unsupported(f"regex outside the language fragment: {pattern.pattern!r}: {e}")
            self._rx_cache[key] = lang
        return [(s, Val(BOOL, z3.InRe(subj.t, lang), {"match": (pattern, method, subj)}))]

    def call_bound(self, s, bm: BoundMethod, args, kwargs, node):
        recv = bm.recv
        if recv.is_py and (type(recv.t), bm.name) in self.py_method_models:
            return self.py_method_models[(type(recv.t), bm.name)](self, s, bm, args, kwargs, node)
        if bm.func is not None:
            return self.call_function(s, bm.func, [recv] + args, kwargs, node)
        if recv.ty.kind in ("ref", "data", "abs", "enum"):
            return self.call_method(s, recv, bm.name, args, kwargs, node)
        return self.builtin_method(s, bm, args, kwargs, node)

    def call_method(self, s, recv: Val, name: str, args, kwargs, node):
        tn = recv.ty.name
        mm = self.method_models.get((tn, name)) or self.method_models.get((tn, "*"))
        if mm is not None:
            return mm(self, s, recv, name, args, kwargs, node)
        cls = self.reg.pyclass.get(tn)
        if cls is not None and hasattr(cls, name):
            val = inspect.getattr_static(cls, name)
            if isinstance(val, pytypes.FunctionType):
                return self.call_function(s, val, [recv] + args, kwargs, node)
        raise Unsupported(f"method {tn}.{name}")

    def qualname_of(self, func):
        return f"{func.__module__}.{func.__qualname__}"

    def call_function(self, s, func, args, kwargs, node):
        qn = self.qualname_of(func)
        model = self.func_models.get(func) or self.func_models.get(qn)
        if model is not None:
            return model(self, s, args, kwargs, node)
        if qn in self.spec_funcs or getattr(func, "__pyvc_spec__", False):
            return self.call_spec(s, func, args, kwargs, node)
        c = self.contracts.get(qn)
        if c is not None and not (self.current and self.current.qualname == qn and False):
            if c.inline and not self.spec_mode:
                return self.inline_function(s, func, args, kwargs, node)
            return self.apply_contract(s, c, func, args, kwargs, node)
        if qn in self.inline_ok or self.spec_mode or func.__module__.startswith("contracts"):
            return self.inline_function(s, func, args, kwargs, node)
        # a helper without a contract that lives in the same module as the function under verification is treated as part
        # of its body (a refactoring that extracts a private helper must not turn the proof into a checker error)
        if self.current is not None and func.__module__ == self.current.qualname.rsplit(".", 2)[0] or \
                (self.current is not None and self.current.qualname.startswith(func.__module__ + ".")):
            self.stats["auto_inlined_helpers"] += 1
            return self.inline_function(s, func, args, kwargs, node)
        raise Unsupported(f"call of {qn}: no contract, model or inline permission")

    # ---- inlining -----------------------------------------------------------------------------
    def bind_args(self, func_node, func_obj, args, kwargs, s):
        a = func_node.args
        params = [p.arg for p in a.posonlyargs + a.args]
        env = {}
        if len(args) > len(params) and not a.vararg:
            raise Unsupported(f"too many positional args")
        for p, v in zip(params, args):
            env[p] = v
        if a.vararg:
            env[a.vararg.arg] = py(tuple(args[len(params):]))
        kw = dict(kwargs)
        for p in params[len(args):] + [k.arg for k in a.kwonlyargs]:
            if p in kw:
                env[p] = kw.pop(p)
        if a.kwarg:
            env[a.kwarg.arg] = py(dict(kw))
            kw = {}
        if kw:
            raise Unsupported(f"unexpected keyword args {list(kw)}")
        # defaults from the real function object (concrete python objects)
        missing = [p for p in params + [k.arg for k in a.kwonlyargs] if p not in env]
        if missing:
            defaults = {}
            if func_obj is not None:
                sig = inspect.signature(func_obj)
                for p in missing:
                    d = sig.parameters[p].default
                    if d is inspect.Parameter.empty:
                        raise Unsupported(f"missing argument {p}")
                    defaults[p] = self.lift(d)
            else:
                # lambda / nested def: evaluate default expressions in the defining env
                pos = a.posonlyargs + a.args
                dnodes = dict(zip([p.arg for p in pos[len(pos) - len(a.defaults):]], a.defaults))
                dnodes.update({k.arg: d for k, d in zip(a.kwonlyargs, a.kw_defaults) if d is not None})
                for p in missing:
                    if p not in dnodes:
                        raise Unsupported(f"missing argument {p}")
                    defaults[p] = self.ev_pure(dnodes[p], s)
            env.update(defaults)
        return env

    def inline_function(self, s, func, args, kwargs, node):
        fnode, module = self.source.function(func)
        return self._inline(s, fnode, func, module, args, kwargs, None, self.qualname_of(func))

    def inline_closure(self, s, c: Closure, args, kwargs, node):
        return self._inline(s, c.node, None, c.module, args, kwargs, c.env, c.qualname)

    def _inline(self, s, fnode, func_obj, module, args, kwargs, closure, qualname):
        if self.depth > 40:
            raise Unsupported("inlining depth exceeded (recursion without contract?)")
        env = self.bind_args(fnode, func_obj, args, kwargs, s)
        # parameter coercion to annotated types keeps Optional/None typing exact
        for a in fnode.args.posonlyargs + fnode.args.args + fnode.args.kwonlyargs:
            if a.annotation is not None and a.arg in env:
                try:
                    ty = self.reg.parse(a.annotation)
                    if ty.kind != "py" and not env[a.arg].is_py or (env[a.arg].is_py and env[a.arg].t is None and ty.kind == "opt"):
                        env[a.arg] = self.coerce(env[a.arg], ty)
                except (TypeError, Unsupported):
                    pass
        callee = s.copy()
        saved = (s.env, s.closure, s.ghost.get("__module__"), s.ghost.get("__func__"), s.ghost.get("__alias__"))
        callee.env = env
        callee.closure = closure
        callee.ghost["__module__"] = py(module)
        callee.ghost["__func__"] = py(qualname)
        callee.ghost["__alias__"] = {}
        self.depth += 1
        try:
            if isinstance(fnode, ast.Lambda):
                outs = [(st2, v) for st2, v in self.ev(fnode.body, callee)]
                finals = []
                for st2, v in outs:
                    st2.flow = ("return", v)
                    finals.append(st2)
            else:
                finals = self.exec_block(fnode.body, callee)
        finally:
            self.depth -= 1
        res = []
        for st2 in finals:
            flow = st2.flow
            st2.env, st2.closure = saved[0], saved[1]
            # env may have been mutated in caller? callee works on its own env dict; restore caller's (copy)
            st2.env = dict(saved[0])
            for key, val in (("__module__", saved[2]), ("__func__", saved[3]), ("__alias__", saved[4])):
                if val is None:
                    st2.ghost.pop(key, None)
                else:
                    st2.ghost[key] = val
            if flow is None:
                st2.flow = None
                res.append((st2, Val(NONE, None)))
            elif flow[0] == "return":
                st2.flow = None
                res.append((st2, flow[1]))
            elif flow[0] == "raise":
                self.abrupt.append(st2)
            else:
                raise Unsupported(f"flow {flow[0]} escaping a function")
        return res

    # ---- construction ---------------------------------------------------------------------------
    def construct(self, s, cls, args, kwargs, node):
        if cls in self.func_models:
            return self.func_models[cls](self, s, args, kwargs, node)
        name = self.reg.by_pyclass.get(cls)
        if isinstance(cls, type) and issubclass(cls, BaseException):
            return [(s, py(Exc(cls, {"args": args, **kwargs})))]
        if name is None:
            return self.call_builtin(s, cls, args, kwargs, node)
        kind = self.reg.kind[name]
        if kind == "data":
            flds = self.reg.fields[name]
            names = list(flds)
            vals = {}
            for fn, a in zip(names, args):
                vals[fn] = a
            vals.update(kwargs)
            defaults = self.data_defaults.get(name, {})
            terms = []
            for fn in names:
                fty = self.reg.parse(flds[fn])
                if fn in vals:
                    v = self.coerce(vals[fn], fty)
                elif fn in defaults:
                    v = self.coerce(defaults[fn](self), fty)
                else:
                    raise Unsupported(f"missing field {fn} constructing {name}")
                terms.append(v.t)
            srt = self.reg.sort(self.reg.ty_of_class(name))
            return [(s, Val(self.reg.ty_of_class(name), srt.constructor(0)(*terms)))]
        if kind == "enum":
            # Enum(value): lookup by value
            outs = []
            rest = s
            for m in cls:
                t, f = self.branch(rest, self.eq(self.lift(m.value), args[0]), "enumval")
                if t is not None:
                    outs.append((t, self.lift(m)))
                if f is None:
                    return outs
                rest = f
            self.raise_(rest, ValueError, where=node)
            return outs
        if kind == "ref":
            ref = self.fresh(self.reg.ty_of_class(name), "new_" + name)
            news = dict(s.ghost.get("__new__", {}))
            news[name] = news.get(name, []) + [ref.t]
            s = s.copy()
            s.ghost["__new__"] = news
            init = inspect.getattr_static(cls, "__init__", None)
            c = self.contracts.get(f"{cls.__module__}.{cls.__qualname__}.__init__")
            if isinstance(init, pytypes.FunctionType):
                outs = self.call_function(s, init, [ref] + args, kwargs, node)
                return [(s2, ref) for s2, _ in outs]
            raise Unsupported(f"construction of {name} without python __init__")
        raise Unsupported(f"construction of {name}")

    # ---- contracts ----------------------------------------------------------------------------------
    def eval_spec_fn(self, s, fn, argmap, extra_env=None, pre_state=None):
        """Symbolically evaluate a contract clause (a python function object from a sidecar) -> z3 Bool/Val."""
        fnode, module = self.source.function(fn)
        params = [p.arg for p in fnode.args.args]
        args = []
        for p in params:
            if p not in argmap and p in self.ghost_defaults:
                args.append(self.lookup(p, s))
                continue
            if p not in argmap:
                raise Unsupported(f"contract clause {fn.__name__} names unknown parameter {p!r}")
            args.append(argmap[p])
        st = s.copy()
        st.ghost["__old__"] = py(pre_state) if pre_state is not None else st.ghost.get("__old__")
        prev = self.spec_mode
        self.spec_mode = True
        mark = len(self.abrupt)
        try:
            outs = self._inline(st, fnode, fn, module, args, {}, None, fn.__qualname__)
        finally:
            self.spec_mode = prev
        if len(self.abrupt) > mark:
            exc = self.abrupt[mark].flow[1]
            del self.abrupt[mark:]
            raise Unsupported(f"contract clause {fn.__qualname__} may raise {exc}")
        return self.merge(outs)

    def contract_param_types(self, c, func):
        fnode, module = self.source.function(func)
        tys = {}
        allargs = fnode.args.posonlyargs + fnode.args.args + fnode.args.kwonlyargs
        for a in allargs:
            if a.arg in c.types:
                tys[a.arg] = self.reg.parse(c.types[a.arg])
            elif a.annotation is not None:
                try:
                    tys[a.arg] = self.reg.parse(a.annotation)
                except TypeError:
                    tys[a.arg] = None
            else:
                tys[a.arg] = None
        ret = None
        if "return" in c.types:
            ret = self.reg.parse(c.types["return"])
        elif fnode.returns is not None:
            try:
                ret = self.reg.parse(fnode.returns)
            except TypeError:
                ret = None
        return fnode, module, tys, ret

    def apply_contract(self, s, c, func, args, kwargs, node):
        fnode, module, tys, ret = self.contract_param_types(c, func)
        env = self.bind_args(fnode, func, args, kwargs, s)
        if self.binder_depth > 0:
            if c.pure and c.result_name is not None and c.pre is None and not c.raises and not c.raises_iff:
                # a pure function whose result is named by a ghost term: usable under binders as that term
                for p, v in list(env.items()):
                    if tys.get(p) is not None and tys[p].kind != "py":
                        env[p] = self.coerce(v, tys[p])
                named = self.eval_spec_fn(s, c.result_name, env)
                return [(s, self.coerce(named, ret) if ret is not None and ret.kind != "py" else named)]
            raise Unsupported(f"contract of {c.qualname} applied under a quantifier/comprehension binder: mark it inline or use a spec function")
        for p, v in list(env.items()):
            if tys.get(p) is not None and tys[p].kind != "py":
                env[p] = self.coerce(v, tys[p])
        where = f"{ast.unparse(node)[:60]}@L{getattr(node, 'lineno', '?')}" if node is not None else c.qualname
        self.stats["contract_applications"] += 1
        if c.pre is not None:
            pre = self.eval_spec_fn(s, c.pre, env)
            self.emit(s, f"pre@{where}", self.truth(pre), note=f"precondition of {c.qualname}")
        pre_state = s.copy()
        pre_state.env = dict(env)
        # havoc frame
        s = s.copy()
        for spec in c.modifies:
            target = None
            if "@" in spec:
                spec, target = spec.split("@")
            cls, field = spec.split(".")
            fty = self.reg.parse(self.reg.fields[cls][field])
            if target is not None:
                # frame: only the named argument's slot may change
                arr = self.heap_array(s, cls, field)
                s.heap[(cls, field)] = z3.Store(arr, env[target].t, z3.Const(fresh_name(f"hv_{cls}_{field}"), self.reg.sort(fty)))
            else:
                s.heap[(cls, field)] = z3.Const(fresh_name(f"heap_{cls}_{field}"),
                                                z3.ArraySort(self.reg.sort(self.reg.ty_of_class(cls)), self.reg.sort(fty)))
        for g in c.modifies_ghost:
            old = s.ghost.get(g)
            if old is None and g in self.ghost_defaults:
                old = self.ghost_defaults[g](self)
            if old is not None and isinstance(old, Val) and not old.is_py:
                s.ghost[g] = self.fresh(old.ty, "ghost_" + g)
        outs = []
        # exceptional exits
        for exc_cls, cond_fn in list(c.raises.items()) + list(c.raises_iff.items()):
            st_r = s.copy()
            if cond_fn is not None:
                cond = self.eval_spec_fn(st_r, cond_fn, env)
                st_r.assume(self.truth(cond), f"raises:{exc_cls.__name__}")
            else:
                st_r.trace.append(f"raises:{exc_cls.__name__}")
            if self.feasible(st_r):
                ep = c.exc_post.get(exc_cls)
                if ep is not None:
                    st_r.assume(self.truth(self.eval_spec_fn(st_r, ep, env, pre_state=pre_state)))
                self.raise_(st_r, exc_cls, where=node, **{"__from_contract__": c.qualname})
        for exc_cls, cond_fn in c.raises_iff.items():
            cond = self.eval_spec_fn(s, cond_fn, env)
            s.assume(z3.Not(self.truth(cond)))
        if not self.feasible(s):
            return outs
        # normal exit
        if ret is None or ret.kind == "py":
            if ret is None and c.post is not None and "result" in inspect.signature(c.post).parameters:
                raise Unsupported(f"contract {c.qualname} needs a return type")
            result = Val(NONE, None)
        else:
            result = self.fresh(ret, "ret_" + func.__name__)
            if c.fresh_result and ret.kind == "ref":
                news = dict(s.ghost.get("__new__", {}))
                news[ret.name] = news.get(ret.name, []) + [result.t]
                s.ghost["__new__"] = news
        if c.result_name is not None:
            named = self.eval_spec_fn(s, c.result_name, env)
            s.assume(self.eq(result, named))
        if c.post is not None and not (c.result_name is not None and getattr(c, "name_only_at_calls", False)):
            # (name_only_at_calls: callers that only need the result's ghost name get just that - assuming less is sound and
            # spares them the quantified postcondition)
            amap = dict(env)
            amap["result"] = result
            gbound = []
            self.begin_binder()
            for g, gty in c.ghost.items():
                gc = self.bound_const("gh_" + g, self.reg.sort(self.reg.parse(gty)))
                gbound.append(gc)
                amap[g] = Val(self.reg.parse(gty), gc)
            prev_unfold = self.unfold_specs
            self.unfold_specs = bool(getattr(c, "unfold_at_calls", False))
            self.binder_depth += 1 if gbound else 0
            try:
                post = self.eval_spec_fn(s, c.post, amap, pre_state=pre_state)
            finally:
                self.unfold_specs = prev_unfold
                self.binder_depth -= 1 if gbound else 0
            pt = self.truth(post)
            s.assume(z3.ForAll(gbound, pt) if gbound else pt)
        if c.decreases is not None and self.current is not None and self.current.qualname == c.qualname:
            m_new = self.eval_spec_fn(s, c.decreases, env)
            m_old = self.current_measure
            self.emit(s, f"decreases@{where}", z3.And(m_new.t >= 0, m_new.t < m_old.t), note="termination measure")
        outs.append((s, result))
        return outs

    def emit(self, s, name, goal, note="", kind="valid"):
        if kind == "valid" and z3.is_expr(goal) and z3.is_and(goal) and goal.num_args() > 1:
            for k, g in enumerate(goal.children()):     # one obligation per conjunct: smaller queries, named failures
                self.emit(s, f"{name}/c{k}", g, note=note, kind=kind)
            return
        if kind == "valid" and z3.is_expr(goal) and z3.is_eq(goal) and z3.is_bool(goal.arg(0)) and self._has_quant(goal):
            a, b = goal.arg(0), goal.arg(1)          # quantified iff: one obligation per direction
            self.emit(s.copy().assume(a), f"{name}/lr", b, note=note, kind=kind)
            self.emit(s.copy().assume(b), f"{name}/rl", a, note=note, kind=kind)
            return
        if kind == "valid" and z3.is_expr(goal) and z3.is_implies(goal) and self._has_quant(goal):
            self.emit(s.copy().assume(goal.arg(0)), f"{name}/imp", goal.arg(1), note=note, kind=kind)
            return
        if kind == "valid" and z3.is_expr(goal) and z3.is_true(z3.simplify(goal)):
            self.stats["trivial_obligations"] += 1
            self.trivial.append(f"{self.vc_prefix}/{name}")
            return
        pid = self.path_id(s)
        full = f"{self.vc_prefix}/{name}/{pid}"
        k = self._vc_names.get(full, 0)
        self._vc_names[full] = k + 1
        if k:
            full = f"{full}.{k}"
        import itertools
        splits = self.case_splits if kind == "valid" else []
        base_hyps = list(s.pc)
        axioms = list(self.axioms)
        if not splits or len(list(itertools.islice(itertools.product(*splits), 65))) > 64:
            for cases in splits:
                axioms += [z3.Implies(c, e) for c, e in cases]
            self.vcs.append(VC(full, base_hyps, goal, kind=kind, inputs=dict(self.current_inputs), note=note, axioms=axioms))
            return
        # one VC per combination of spec-function cases, plus exhaustiveness of each case set
        for combo in itertools.product(*[list(enumerate(c)) for c in splits]):
            tag = ".".join(str(i) for i, _ in combo)
            hyps = base_hyps + [x for _, (c, e) in combo for x in (c, e)]
            self.vcs.append(VC(f"{full}/case-{tag}", hyps, goal, kind=kind, inputs=dict(self.current_inputs),
                               note=note + " [spec case " + tag + "]", axioms=axioms))
        for k, cases in enumerate(splits):
            self.vcs.append(VC(f"{full}/cases-exhaustive-{k}", base_hyps, z3.Or(*[c for c, _ in cases]), kind="valid",
                               inputs=dict(self.current_inputs), note="spec case analysis is exhaustive", axioms=axioms))

    def path_id(self, s):
        import hashlib
        return "p" + hashlib.sha1("|".join(s.trace).encode()).hexdigest()[:8]


_BUILTIN_METHODS = {"add", "append", "get", "items", "keys", "values", "union", "intersection", "copy", "update",
                    "setdefault", "remove", "extend", "startswith", "endswith", "strip", "lstrip", "rstrip", "split",
                    "splitlines", "join", "format", "index", "find", "replace", "lower", "upper", "pop", "sort",
                    "removeprefix", "removesuffix", "count", "discard", "difference", "issubset", "encode", "isdigit", "partition", "clear"}
