"""Check driver: runs one property's obligations, replays refutations on the real code, applies the
known-findings file, writes evidence, sets the exit status.

Exit codes: 0 all obligations discharged (KNOWN-FINDING lines for listed findings);
            1 an obligation is refuted -> VIOLATION property=<id> replay=<path> [no-failing-input-found];
            2 undecided (solver unknown/timeout) -- never reported as a violation;
            3 checker error (function not found, unsupported construct, ...)."""
from __future__ import annotations

import argparse
import importlib
import json
import os
import re
import sys
import time
import traceback

VERIF = os.path.dirname(os.path.dirname(os.path.abspath(__file__)))
REPO_SRC = "/repo/src"

DROPPED = [
    "docstrings", "type annotations and typing.cast (identity)",
    "_LOGGER.* calls (their argument expressions are not evaluated)",
    "the i18n wrapper _() (identity on its constant argument; assumption: translations keep placeholders)",
    "comments / pylint pragmas",
]


class Bounded:
    """Result of a T2 stand-in: real code executed/enumerated up to a stated bound. Never counted as proved."""

    def __init__(self, name, bound, cases, failures, note=""):
        self.name, self.bound, self.cases, self.failures, self.note = name, bound, cases, list(failures), note


class Ctx:
    def __init__(self, prop, tier, seed):
        self.prop, self.tier, self.seed = prop, tier, seed
        self.vcs = []
        self.bounded = []
        self.assumptions = []
        self.trusted = []
        self.weakest_pre = []
        self.functions = []
        self.replayers = {}     # vc-name prefix -> fn(model) -> dict(replayed=bool, detail=...)
        self.notes = []
        self.engine = None
        self.samples = []
        self.checker_errors = []

    def new_engine(self):
        from .engine import Engine
        e = Engine()
        self.engine = e
        return e

    def verify(self, engine, qualname, replay=None):
        from .state import Unsupported
        n0 = len(engine.vcs)
        try:
            vcs = engine.verify_function(qualname, self.prop)
        except Unsupported as e:
            # the contract no longer applies to the code as it is now (renamed local, unsupported construct ...): a
            # checker error for this function; the other obligations and the bounded checks still run
            del engine.vcs[n0:]
            engine.current = None
            self.checker_errors.append(f"{qualname}: {e}")
            return []
        self.vcs += vcs
        self.functions = engine.functions_verified
        if replay is not None:
            self.replayers[f"{self.prop}/{qualname}/"] = replay
        return vcs

    def lemma(self, engine, lem):
        vcs = engine.verify_lemma(lem, self.prop)
        self.vcs += vcs
        return vcs

    def add_vc(self, vc, replay=None):
        self.vcs.append(vc)
        if replay is not None:
            self.replayers[vc.name] = replay

    def assume(self, text):
        if text not in self.assumptions:
            self.assumptions.append(text)

    def trust(self, text):
        if text not in self.trusted:
            self.trusted.append(text)


def load_known():
    path = os.path.join(VERIF, "known_findings.json")
    if not os.path.exists(path):
        return []
    with open(path) as fp:
        return json.load(fp).get("findings", [])


def _decode_model_value(v, ann):
    """counter-model entry -> native Python value (str / int / bool / Optional[...] / list[str]); raises ValueError"""
    import re as _re

    def unq(t):
        t = t[1:-1].replace('""', '"')
        return _re.sub(r"\\u\{([0-9a-fA-F]+)\}", lambda m: chr(int(m.group(1), 16)), t)
    if v["kind"] in ("str", "int", "bool"):
        return v["value"]
    if v["kind"] != "sexpr":
        raise ValueError(v["kind"])
    t = v["value"].strip()
    if t.startswith("none_"):
        return None
    m = _re.fullmatch(r"\(some_\w+ (.*)\)", t, _re.S)
    if m:
        inner = m.group(1).strip()
        if inner.startswith('"'):
            return unq(inner)
        if inner in ("true", "false"):
            return inner == "true"
        if _re.fullmatch(r"-?\d+|\(- \d+\)", inner):
            return int(inner.replace("(- ", "-").replace(")", ""))
        raise ValueError(inner)
    if "seq" in t and ("list" in ann or "Sequence" in ann or "tuple" in ann):
        if "seq.empty" in t and '"' not in t:
            return []
        return [unq(x) for x in _re.findall(r'"(?:[^"]|"")*"', t)]
    raise ValueError(t[:40])


def generic_replay(qualname):
    """Replay for functions over str / int / bool / Optional / list[str] arguments: call the real function on the
    counter-model and evaluate the same contract clauses (raises_iff conditions, postcondition) natively."""
    def run(model, vc):
        from . import api
        import inspect
        c = api.CONTRACTS[qualname]
        func = _resolve(qualname)
        params = list(inspect.signature(func).parameters)
        kwargs = {}
        for p in params:
            ann = str(c.types.get(p, "str"))
            hit = [v for k, v in (model or {}).items() if k.split("!")[0] == p]
            try:
                if not hit:
                    raise ValueError("not in the model")
                kwargs[p] = _decode_model_value(hit[0], ann)
            except ValueError:
                default = inspect.signature(func).parameters[p].default
                kwargs[p] = default if default is not inspect.Parameter.empty else (
                    None if ann.startswith("Optional") else {"int": 0, "bool": False}.get(ann, [] if "list" in ann else ""))
        try:
            result = func(**kwargs)
            exc = None
        except Exception as e:  # noqa
            result, exc = None, e
        detail = {"function": qualname, "inputs": {k: (v if isinstance(v, (str, int, bool, list, type(None))) else repr(v)) for k, v in kwargs.items()},
                  "result": repr(result), "exception": repr(exc)}

        def call(fn, extra=None):
            names = inspect.signature(fn).parameters
            return fn(**{k: v for k, v in {**kwargs, **(extra or {})}.items() if k in names})
        try:
            for cls, cond in c.raises_iff.items():
                expected = bool(call(cond))
                raised = exc is not None and isinstance(exc, cls)
                if expected != raised:
                    detail["replayed"] = True
                    detail["note"] = f"{cls.__name__} {'expected' if expected else 'not expected'} by the contract, {'raised' if raised else 'not raised'} by the code"
                    return detail
            if exc is not None:
                allowed = [k for k in list(c.raises) + list(c.raises_iff) if isinstance(exc, k)]
                detail["replayed"] = not allowed
                return detail
            if c.post is not None:
                ok = call(c.post, {"result": result})
                detail["expected_post"] = bool(ok)
                detail["replayed"] = not ok
            else:
                detail["replayed"] = False
        except (NotImplementedError, TypeError, AttributeError) as e:
            detail["replayed"] = False
            detail["note"] = f"contract clause has no native evaluation on these values: {e!r}"
        return detail
    return run


def _resolve(qualname):
    from .engine import Engine
    return Engine.resolve(Engine.__new__(Engine), qualname)


def main(argv=None):
    ap = argparse.ArgumentParser()
    ap.add_argument("prop")
    ap.add_argument("--tier", default=os.environ.get("VERIF_TIER", "quick"), choices=["quick", "thorough"])
    ap.add_argument("--replay", default=None)
    ap.add_argument("--jobs", type=int, default=None)
    args = ap.parse_args(argv)
    seed = int(os.environ.get("VERIF_SEED", "0") or 0)
    prop = args.prop
    t0 = time.time()
    sys.path.insert(0, VERIF)
    sys.path.insert(0, REPO_SRC)
    os.environ.setdefault("PYTHONHASHSEED", "0")
    evidence_path = os.path.join(VERIF, "evidence", f"{prop}.json")
    os.makedirs(os.path.dirname(evidence_path), exist_ok=True)
    if args.replay:
        return do_replay(prop, args.replay)
    try:
        mod = importlib.import_module(f"props.{prop}")
        ctx = Ctx(prop, args.tier, seed)
        mod.run(ctx)
        from .backends import solve_all
        scratch = os.path.join(VERIF, ".scratch", f"smt-{os.getpid()}")
        solve_all(ctx.vcs, tier=args.tier, jobs=args.jobs, scratch=scratch)
        # second chance for undecided obligations: thorough budgets, fewer processes (less contention)
        again = [v for v in ctx.vcs if v.kind == "valid" and v.result["verdict"] == "unknown"]
        if again:
            first = {v.name: v.result for v in again}
            solve_all(again, tier="thorough", jobs=min(8, len(again)), scratch=scratch)
            for v in again:
                v.result["log"] = first[v.name]["log"] + [("second-chance", "thorough budgets", 0)] + v.result["log"]
                v.result["seconds"] += first[v.name]["seconds"]
        import shutil
        shutil.rmtree(scratch, ignore_errors=True)
        status = conclude(ctx, mod, t0, evidence_path, args)
        return status
    except Exception as e:  # checker error: never a violation
        traceback.print_exc()
        from .state import Unsupported
        kind = "unsupported construct" if isinstance(e, Unsupported) else "checker error"
        print(f"CHECKER-ERROR property={prop} {kind}: {e}")
        write_evidence(evidence_path, dict(property_id=prop, tier=args.tier, seed=seed, level="other",
                                           coverage=dict(explanation=f"checker error, nothing decided: {kind}: {e}"[:500],
                                                         evaluations=0, distinct_nontrivial=0),
                                           assumptions=[], wall_s=round(time.time() - t0, 2), violations=0))
        return 3


def conclude(ctx, mod, t0, evidence_path, args):
    prop = ctx.prop
    known = [k for k in load_known() if prop in k.get("properties", [k.get("property")]) and k.get("status", "open") == "open"]
    valid = [v for v in ctx.vcs if v.kind == "valid"]
    covers = [v for v in ctx.vcs if v.kind == "cover"]
    discharged = [v for v in valid if v.result["verdict"] == "unsat"]
    refuted = [v for v in valid if v.result["verdict"] == "sat"]
    undecided = [v for v in valid if v.result["verdict"] == "unknown"]
    vacuous = [v for v in covers if v.result["verdict"] == "unsat"]
    cover_unknown = [v for v in covers if v.result["verdict"] == "unknown"]
    lines = []
    violations = []
    known_hits = []
    extra_discharged = 0
    extra_obligations = 0
    # --- refuted obligations: replay, known findings ------------------------------------
    for vc in refuted:
        rep = None
        for prefix, fn in ctx.replayers.items():
            if vc.name.startswith(prefix):
                try:
                    rep = fn(vc.result["model"], vc)
                except Exception as e:  # replay harness failure is not a violation of its own
                    rep = {"replayed": False, "note": f"replay harness error: {e!r}"}
                break
        matched = None
        for k in known:
            if k.get("obligation_regex") and re.search(k["obligation_regex"], vc.name):
                matched = k
                break
        if matched is not None:
            ok, detail = relativise(ctx, mod, vc, matched, args)
            extra_obligations += 1
            if ok:
                extra_discharged += 1
                known_hits.append((matched, vc, rep))
                continue
            rep = dict(rep or {}, relativised=detail)
        violations.append((vc, rep))
    # --- bounded stand-ins -------------------------------------------------------------------
    undecided_cases = []
    for b in ctx.bounded:
        for f in b.failures:
            if isinstance(f, dict) and f.get("unknown"):
                # a case of an enumeration that no solver decided within the budget: a gap in coverage (recorded in the
                # evidence), not a verdict about the code
                undecided_cases.append({"bounded": b.name, "case": {k: v for k, v in f.items() if k != "unknown"}})
                continue
            matched = None
            for k in known:
                if k.get("bounded") != b.name:
                    continue
                if "predicate" in k:
                    modname, fname = k["predicate"].split(":")
                    if getattr(importlib.import_module(modname), fname)(f):
                        matched = k
                        break
                elif re.search(k["witness_regex"], json.dumps(f, sort_keys=True, default=str)):
                    matched = k
                    break
            if matched is not None:
                known_hits.append((matched, None, f))
            else:
                violations.append((None, {"bounded": b.name, "bound": b.bound, "failure": f,
                                          "replayed": bool(f.get("replayed", True)) if isinstance(f, dict) else True}))
    seen = set()
    for k, vc, rep in known_hits:
        if k["id"] in seen:
            continue
        seen.add(k["id"])
        lines.append(f"KNOWN-FINDING: property={prop} {k['what']}")
    for u in undecided_cases[:5]:
        lines.append(f"NOTE: property={prop} bounded case left undecided by the solvers (coverage gap, not a verdict): {json.dumps(u, default=str)[:200]}")
    ctx.notes += [f"undecided bounded case: {json.dumps(u, default=str)[:300]}" for u in undecided_cases]
    status = 0
    os.makedirs(os.path.join(VERIF, "replays", prop), exist_ok=True)
    for i, (vc, rep) in enumerate(violations):
        name = vc.name if vc is not None else f"{prop}/bounded/{rep['bounded']}"
        fname = re.sub(r"[^A-Za-z0-9_.#@-]+", "_", name)[:150] + f".{i}.json"
        path = os.path.join(VERIF, "replays", prop, fname)
        payload = {"property": prop, "obligation": name,
                   "note": vc.note if vc is not None else rep.get("bounded"),
                   "solver": vc.result if vc is not None else None,
                   "replay": rep, "tier": ctx.tier,
                   "rerun": f"./check {prop} --replay {os.path.relpath(path, VERIF)}"}
        with open(path, "w") as fp:
            json.dump(payload, fp, indent=1, default=str)
        replayed = bool(rep and rep.get("replayed"))
        lines.append(f"VIOLATION property={prop} replay={os.path.relpath(path, VERIF)}" + ("" if replayed else " no-failing-input-found"))
        status = 1
    # an obligation that is not discharged is reported as the violation (brief: "the check still reports the
    # violation, the replay file names the failed obligation and carries the verifier's output"), unless the back
    # ends themselves failed (parse/solver errors), which is a checker error
    for v in undecided:
        broken = all(str(x[1]).startswith("error") for x in v.result["log"] if x[0] != "second-chance")
        if broken:
            status = max(status, 3) if status != 1 else 1
            lines.append(f"CHECKER-ERROR property={prop} back ends failed on {v.name}: {v.result['log'][:2]}")
            continue
        fname = re.sub(r"[^A-Za-z0-9_.#@-]+", "_", v.name)[:150] + ".undischarged.json"
        path = os.path.join(VERIF, "replays", prop, fname)
        with open(path, "w") as fp:
            json.dump({"property": prop, "obligation": v.name, "note": v.note, "verdict": "not discharged (no counter-model)",
                       "solver": v.result, "tier": ctx.tier,
                       "explanation": "every back end returned unknown/timeout within the quick and the thorough budgets; on the "
                                      "unchanged tree this obligation is discharged"}, fp, indent=1, default=str)
        lines.append(f"VIOLATION property={prop} replay={os.path.relpath(path, VERIF)} no-failing-input-found")
        status = 1
    if vacuous:
        status = max(status, 3) if status != 1 else 1
        for v in vacuous:
            lines.append(f"CHECKER-ERROR property={prop} vacuous precondition/cover: {v.name}")
    for ce in ctx.checker_errors:
        lines.append(f"CHECKER-ERROR property={prop} contract not applicable: {ce}"[:400])
    if ctx.checker_errors and status == 0:
        status = 3
    if not valid and not ctx.bounded:
        status = 3
        lines.append(f"CHECKER-ERROR property={prop} zero obligations generated")
    for ln in lines:
        print(ln)
    # --- evidence --------------------------------------------------------------------------------------
    by_backend = {}
    solver_s = 0.0
    for v in ctx.vcs:
        b = v.result.get("backend") or "none"
        by_backend[b] = by_backend.get(b, 0) + 1
        solver_s += v.result.get("seconds", 0)
    level = getattr(mod, "LEVEL", "proof")
    # obligations closed by the term simplifier (goal rewritten to `true` before any solver call) are obligations too:
    # they are counted, under their own back-end name
    n_triv = len(ctx.engine.trivial) if ctx.engine else 0
    if n_triv:
        by_backend["term-simplifier (goal rewritten to true)"] = n_triv
    n_obl = len(valid) + n_triv   # a refuted obligation covered by a listed finding is replaced by its relativised form
    n_dis = len(discharged) + extra_discharged + n_triv
    if n_obl == 0 and level == "proof":
        level = "other"      # nothing could be put under contract in this run (checker errors): no proof is claimed for it
    samples = [{"obligation": v.name, "kind": v.kind, "verdict": v.result["verdict"], "backend": v.result["backend"],
                "seconds": round(v.result["seconds"], 3), "note": v.note, "smt2_bytes": len(v.smt2())} for v in (valid[:4] + refuted[:3])]
    samples += ctx.samples[:6]
    coverage = dict(
        obligations=n_obl, discharged=n_dis,
        checker_cmd=f"./check {prop} --tier {ctx.tier}",
        trusted_base=ctx.trusted + ["/verif/pyvc (home-made VC generator: the largest piece of trusted code)",
                                    "z3 5.1 / cvc5 1.0.3 solvers"],
        functions_under_contract=ctx.functions,
        trivially_true_obligations=len(ctx.engine.trivial) if ctx.engine else 0,
        cover_checks=len(covers), cover_ok=len([v for v in covers if v.result["verdict"] == "sat"]),
        cover_inconclusive=[v.name for v in cover_unknown],
        by_backend=by_backend, solver_seconds=round(solver_s, 2),
        slowest_obligations=[{"obligation": v.name, "seconds": round(v.result.get("seconds", 0), 1), "backend": v.result.get("backend")}
                             for v in sorted(ctx.vcs, key=lambda v: -v.result.get("seconds", 0))[:5]],
        refuted=[v.name for v in refuted], undecided=[v.name for v in undecided],
        known_findings=[{"id": k["id"], "what": k["what"]} for k, _, _ in known_hits],
        bounded_checks=[dict(name=b.name, bound=b.bound, cases=b.cases, failures=len(b.failures), note=b.note,
                             label="bounded (T2) - never counted in discharged") for b in ctx.bounded],
        dropped_by_extraction=DROPPED, weakest_preconditions=ctx.weakest_pre, samples=samples, notes=ctx.notes,
        evaluations=len(ctx.vcs) + sum(b.cases for b in ctx.bounded),
        distinct_nontrivial=len({v.name for v in valid}) + sum(1 for b in ctx.bounded if b.cases),
        rule="one evaluation per verification condition (named obligation, per path) plus one per bounded-check case; "
             "an obligation is non-trivial if it was not simplified to true before reaching a solver",
        explanation=getattr(mod, "EXPLANATION", ""),
    )
    ev = dict(property_id=prop, tier=ctx.tier, seed=ctx.seed, level=level, coverage=coverage,
              assumptions=ctx.assumptions, wall_s=round(time.time() - t0, 2), violations=len(violations))
    write_evidence(evidence_path, ev)
    print(f"{prop}: obligations={n_obl} discharged={n_dis} refuted={len(refuted)} undecided={len(undecided)} "
          f"bounded={[(b.name, b.cases, len(b.failures)) for b in ctx.bounded]} known={len(seen)} status={status} "
          f"wall={round(time.time() - t0, 1)}s")
    return status


def relativise(ctx, mod, vc, known, args):
    """Re-generate the refuted VC with the known witness class excluded; it must then be discharged."""
    import z3
    from .backends import solve_all
    from .state import VC, State, py, Val
    ex = known.get("exclude")
    if not ex:
        return False, "known finding has no exclusion predicate"
    modname, fname = ex.split(":")
    fn = getattr(importlib.import_module(modname), fname)
    e = ctx.engine
    import inspect
    st = State()
    st.ghost["__module__"] = py(sys.modules[fn.__module__])
    amap = {}
    for p in inspect.signature(fn).parameters:
        if p not in vc.inputs:
            return False, f"exclusion predicate names {p}, not an input of the obligation"
        t = vc.inputs[p]
        from .types import STR, INT, BOOL
        ty = {"String": STR, "Int": INT, "Bool": BOOL}.get(str(t.sort()))
        if ty is None:
            return False, "exclusion predicate over unsupported sort"
        amap[p] = Val(ty, t)
    saved_ax, saved_cs = e.axioms, e.case_splits
    e.axioms, e.case_splits = [], []
    cond = e.truth(e.eval_spec_fn(st, fn, amap))
    extra = list(e.axioms)
    e.axioms, e.case_splits = saved_ax, saved_cs
    vc2 = VC(vc.name + "/relativised", vc.hyps + [z3.Not(cond)], vc.goal, inputs=vc.inputs,
             note=vc.note + f" [known finding {known['id']} excluded]", axioms=list(vc.axioms) + extra)
    solve_all([vc2], tier=ctx.tier)
    ctx.vcs.append(vc2)
    vc2.kind = "relativised"
    return vc2.result["verdict"] == "unsat", vc2.result


def write_evidence(path, ev):
    try:
        import jsonschema
        with open("/root/.vp/EVIDENCE.schema.json") as fp:
            schema = json.load(fp)
        jsonschema.validate(ev, schema)
    except ImportError:
        pass
    except FileNotFoundError:
        pass
    with open(path, "w") as fp:
        json.dump(ev, fp, indent=1, default=str)


def do_replay(prop, path):
    with open(os.path.join(VERIF, path) if not os.path.isabs(path) else path) as fp:
        payload = json.load(fp)
    print(json.dumps(payload, indent=1)[:4000])
    mod = importlib.import_module(f"props.{prop}")
    fn = getattr(mod, "replay", None)
    if fn is None:
        print("no native replay for this property; the obligation and solver output are above")
        return 0
    ok = fn(payload)
    print("replay reproduces the failure" if ok else "replay does NOT reproduce the failure")
    return 1 if ok else 0
