"""Static types of the verified Python subset and their SMT sorts.

Python value domain -> SMT sort (what the encoding assumes, DESIGN.md 2.3):
  int -> Int (mathematical), bool -> Bool, str -> String (z3 Seq(Char)),
  Optional[T] -> datatype None|Some(T), set[T] -> Array(T,Bool),
  dict[K,V] -> datatype (dom: Array(K,Bool), val: Array(K,V)) [insertion order NOT modelled],
  list[T]/tuple[T,...] -> Seq(T), fixed tuples -> tuple datatype,
  mutable class instances -> uninterpreted reference sort + heap arrays per field,
  frozen records (dataclass/NamedTuple) -> datatype, Enum -> finite datatype,
  everything external (Path, Expression, Template, ...) -> uninterpreted sort.
"""
from __future__ import annotations

import ast
import z3


class Ty:
    __slots__ = ("kind", "args", "name")

    def __init__(self, kind, args=(), name=None):
        self.kind, self.args, self.name = kind, tuple(args), name

    def __eq__(self, o):
        return isinstance(o, Ty) and (self.kind, self.args, self.name) == (o.kind, o.args, o.name)

    def __hash__(self):
        return hash((self.kind, self.args, self.name))

    def __repr__(self):
        if self.kind in ("int", "bool", "str", "none", "py", "any"):
            return self.kind
        if self.name:
            return f"{self.kind}:{self.name}"
        return f"{self.kind}[{', '.join(map(repr, self.args))}]"


INT, BOOL, STR, NONE, PY = Ty("int"), Ty("bool"), Ty("str"), Ty("none"), Ty("py")


def TOpt(t):
    if t.kind == "opt" or t.kind == "none":
        return t
    return Ty("opt", (t,))


def TSet(t): return Ty("set", (t,))
def TDict(k, v): return Ty("dict", (k, v))
def TSeq(t): return Ty("seq", (t,))
def TTuple(*ts): return Ty("tuple", ts)
def TRef(name): return Ty("ref", (), name)
def TData(name): return Ty("data", (), name)
def TEnum(name): return Ty("enum", (), name)
def TAbs(name): return Ty("abs", (), name)


class Registry:
    """Declared classes: refs (mutable, heap), data (value records), enums."""

    def __init__(self):
        self.fields = {}        # class name -> {field: Ty}  (refs and data)
        self.kind = {}          # class name -> 'ref'|'data'|'enum'|'abs'
        self.enum_members = {}  # name -> [member names]
        self.pyclass = {}       # name -> real python class (if any)
        self.by_pyclass = {}    # real class -> name
        self.aliases = {}       # type-name alias -> Ty
        self._sorts = {}
        self._data = {}

    # -- declarations -------------------------------------------------
    def declare(self, kind, name, fields=None, pyclass=None, members=None):
        self.kind[name] = kind
        if fields is not None:
            self.fields[name] = dict(fields)
        if members is not None:
            self.enum_members[name] = list(members)
        if pyclass is not None:
            self.pyclass[name] = pyclass
            self.by_pyclass[pyclass] = name

    def ty_of_class(self, name):
        k = self.kind[name]
        return {"ref": TRef, "data": TData, "enum": TEnum, "abs": TAbs}[k](name)

    # -- type expressions ---------------------------------------------
    def parse(self, src):
        if isinstance(src, Ty):
            return src
        if isinstance(src, str):
            node = ast.parse(src, mode="eval").body
        else:
            node = src
        return self._parse(node)

    def _parse(self, n):
        if isinstance(n, ast.Constant):
            if n.value is None:
                return NONE
            if isinstance(n.value, str):
                return self.parse(n.value)
        if isinstance(n, ast.Name):
            return self._name(n.id)
        if isinstance(n, ast.Attribute):
            return self._name(n.attr)
        if isinstance(n, ast.BinOp) and isinstance(n.op, ast.BitOr):
            l, r = self._parse(n.left), self._parse(n.right)
            if l == NONE:
                return TOpt(r)
            if r == NONE:
                return TOpt(l)
            raise TypeError("unsupported union type")
        if isinstance(n, ast.Subscript):
            base = n.value.id if isinstance(n.value, ast.Name) else n.value.attr
            sl = n.slice
            elts = list(sl.elts) if isinstance(sl, ast.Tuple) else [sl]
            low = base.lower()
            if low == "optional":
                return TOpt(self._parse(elts[0]))
            if low in ("set", "frozenset", "collection", "abstractset"):
                return TSet(self._parse(elts[0]))
            if low in ("list", "sequence", "iterable", "iterator", "generator"):
                return TSeq(self._parse(elts[0]))
            if low == "defaultdict":
                return Ty("dict", (self._parse(elts[0]), self._parse(elts[1])), "dd")   # reads of missing keys yield the factory value
            if low in ("dict", "mapping"):
                return TDict(self._parse(elts[0]), self._parse(elts[1]))
            if low == "tuple":
                if len(elts) == 2 and isinstance(elts[1], ast.Constant) and elts[1].value is Ellipsis:
                    return TSeq(self._parse(elts[0]))
                return TTuple(*[self._parse(e) for e in elts])
            if low == "type":
                return PY
            if low == "union":
                ts = [self._parse(e) for e in elts]
                non = [t for t in ts if t != NONE]
                if len(non) == 1:
                    return TOpt(non[0]) if len(ts) > 1 else non[0]
                raise TypeError("unsupported Union")
        raise TypeError(f"cannot parse type {ast.dump(n)}")

    def _name(self, s):
        base = {"int": INT, "bool": BOOL, "str": STR, "None": NONE, "Any": PY, "object": PY}
        if s in base:
            return base[s]
        if s in self.aliases:
            return self.aliases[s]
        if s in self.kind:
            return self.ty_of_class(s)
        raise TypeError(f"unknown type name {s!r}")

    # -- sorts ----------------------------------------------------------
    def sort(self, ty):
        if ty.kind == "dict" and ty.name:
            return self.sort(Ty("dict", ty.args))      # defaultdict shares the sort of dict
        if ty in self._sorts:
            return self._sorts[ty]
        s = self._mk_sort(ty)
        self._sorts[ty] = s
        return s

    def _sname(self, ty):
        if ty.kind in ("int", "bool", "str", "none"):
            return ty.kind
        if ty.name and ty.kind != "dict":
            return ty.name
        return ty.kind + "_" + "_".join(self._sname(a) for a in ty.args)

    def _mk_sort(self, ty):
        k = ty.kind
        if k == "int":
            return z3.IntSort()
        if k == "bool":
            return z3.BoolSort()
        if k == "str":
            return z3.StringSort()
        if k == "none":
            d = z3.Datatype("NoneT")
            d.declare("none_v")
            return d.create()
        if k == "opt":
            n = self._sname(ty.args[0])
            d = z3.Datatype("Opt_" + n)
            d.declare("none_" + n)
            d.declare("some_" + n, ("val_" + n, self.sort(ty.args[0])))
            srt = d.create()
            srt.none = srt.constructor(0)()
            srt.some = srt.constructor(1)
            srt.is_none = srt.recognizer(0)
            srt.is_some = srt.recognizer(1)
            srt.val = srt.accessor(1, 0)
            return srt
        if k == "set":
            return z3.ArraySort(self.sort(ty.args[0]), z3.BoolSort())
        if k == "dict":
            n = self._sname(ty)
            d = z3.Datatype("Dict_" + n)
            d.declare("mk_" + n, ("dom_" + n, z3.ArraySort(self.sort(ty.args[0]), z3.BoolSort())),
                      ("val_" + n, z3.ArraySort(self.sort(ty.args[0]), self.sort(ty.args[1]))))
            srt = d.create()
            srt.mkdict = srt.constructor(0)
            srt.dom = srt.accessor(0, 0)
            srt.val = srt.accessor(0, 1)
            return srt
        if k == "seq":
            return z3.SeqSort(self.sort(ty.args[0]))
        if k == "tuple":
            n = self._sname(ty)
            d = z3.Datatype("Tup_" + n)
            d.declare("mktup_" + n, *[(f"t{i}_{n}", self.sort(a)) for i, a in enumerate(ty.args)])
            srt = d.create()
            srt.mktup = srt.constructor(0)
            return srt
        if k in ("ref", "abs"):
            return z3.DeclareSort(ty.name)
        if k == "enum":
            s, vals = z3.EnumSort(ty.name, self.enum_members[ty.name])
            self._data[ty.name] = dict(zip(self.enum_members[ty.name], vals))
            return s
        if k == "data":
            d = z3.Datatype(ty.name)
            d.declare("mk_" + ty.name, *[(f"{ty.name}__{f}", self.sort(self.parse(t)))
                                         for f, t in self.fields[ty.name].items()])
            return d.create()
        raise TypeError(f"no sort for {ty}")

    def enum_val(self, name, member):
        self.sort(TEnum(name))
        return self._data[name][member]
