"""Statement execution: exec_block(stmts, st) -> [State] (each with .flow describing how it ended)."""
from __future__ import annotations

import ast
import z3

from .state import Val, py, Unsupported, Exc, State, fresh_name
from .types import INT, BOOL, STR, NONE, PY, TOpt, TSet, TDict, TSeq, TTuple
from .ev_expr import Closure


class StmtMixin:
    def exec_block(self, stmts, st):
        states = [st]
        done = []
        for stmt in stmts:
            nxt = []
            for s in states:
                if s.flow is not None:
                    done.append(s)
                    continue
                nxt += self.exec_stmt(stmt, s)
            states = nxt
            if len(states) + len(done) > self.max_paths:
                raise Unsupported(f"path explosion (> {self.max_paths} paths)")
        return done + states

    def exec_stmt(self, stmt, st):
        m = getattr(self, "ex_" + type(stmt).__name__, None)
        if m is None:
            raise Unsupported(f"statement {type(stmt).__name__} at line {stmt.lineno}")
        mark = len(self.abrupt)
        outs = m(stmt, st)
        raised = self.abrupt[mark:]
        del self.abrupt[mark:]
        return outs + raised

    # ---- simple statements ---------------------------------------------------------------------
    def ex_Pass(self, n, st):
        return [st]

    def ex_Expr(self, n, st):
        if isinstance(n.value, ast.Constant):
            return [st]  # docstring
        if self.is_dropped_call(n.value):
            return [st]
        if isinstance(n.value, (ast.Yield,)):
            return self.ex_yield(n.value, st)
        return [s for s, _ in self.ev(n.value, st)]

    def is_dropped_call(self, e):
        """Extraction drops _LOGGER.* calls (DESIGN 2.1 step 3)."""
        return (isinstance(e, ast.Call) and isinstance(e.func, ast.Attribute)
                and isinstance(e.func.value, ast.Name) and e.func.value.id == "_LOGGER")

    def ex_yield(self, y, st):
        outs = []
        for s, v in self.ev(y.value, st):
            cur = s.ghost.get("__yielded__")
            if cur is None:
                s.ghost["__yielded__"] = self.mk_seq([v], v.ty)
            else:
                s.ghost["__yielded__"] = Val(cur.ty, z3.Concat(cur.t, z3.Unit(self.coerce(v, cur.ty.args[0]).t)))
            outs.append(s)
        return outs

    def ex_Assign(self, n, st):
        outs = []
        for s, v in self.ev(n.value, st):
            for tgt in n.targets:
                self.assign_target(s, tgt, v, n.value)
            outs.append(s)
        return outs

    def ex_AnnAssign(self, n, st):
        if n.value is None:
            return [st]
        outs = []
        for s, v in self.ev(n.value, st):
            try:
                ty = self.reg.parse(n.annotation)
                # an annotation is not a cast: only widen (None / T into Optional[T], typed empty literals, constants);
                # an Optional value annotated as T stays Optional
                widening = v.is_py or v.ty.kind == "none" or (v.meta and v.meta.get("empty")) or ty.kind == "opt"
                if ty.kind != "py" and widening:
                    v = self.coerce(v, ty)
            except (TypeError, Unsupported):
                pass
            self.assign_target(s, n.target, v, n.value)
            outs.append(s)
        return outs

    def ex_AugAssign(self, n, st):
        outs = []
        load = ast.copy_location(ast.parse(ast.unparse(n.target), mode="eval").body, n.target)
        for s, (cur, v) in self.ev_many([load, n.value], st):
            for s2, r in self.binop(s, n.op, cur, v, n):
                self.assign_target(s2, n.target, r)
                outs.append(s2)
        return outs

    def assign_target(self, s, tgt, v: Val, value_node=None):
        if isinstance(tgt, ast.Name):
            old = s.env.get(tgt.id)
            # keep declared static type (e.g. Optional[int] variables assigned an int)
            if old is not None and not old.is_py and old.ty.kind == "opt" and old.ty != v.ty \
                    and (v.ty.kind == "none" or v.ty == old.ty.args[0] or v.is_py):
                # a variable that held Optional[T] keeps that static type when assigned a T or None
                try:
                    v = self.coerce(v, old.ty)
                except Unsupported:
                    pass
            elif old is not None and old.ty.kind == "none" and not v.is_py and v.ty.kind not in ("none", "opt"):
                v = self.coerce(v, TOpt(v.ty))
            s.env[tgt.id] = v
            # alias tracking for mutable containers read out of object fields
            aliases = s.ghost.setdefault("__alias__", {}) if "__alias__" in s.ghost else None
            if aliases is not None:
                aliases = dict(aliases)
                aliases.pop(tgt.id, None)
                if value_node is not None and not v.is_py and v.ty.kind in ("set", "dict", "seq") \
                        and isinstance(value_node, (ast.Attribute, ast.Subscript)):
                    lv = self._lvalue(value_node)
                    if lv is not None:
                        aliases[tgt.id] = lv
                s.ghost["__alias__"] = aliases
            return
        if isinstance(tgt, (ast.Tuple, ast.List)):
            n = len(tgt.elts)
            if v.is_py and isinstance(v.t, (tuple, list)):
                if len(v.t) != n:
                    raise Unsupported("unpack length mismatch")
                for t, x in zip(tgt.elts, v.t):
                    self.assign_target(s, t, x if isinstance(x, Val) else self.lift(x))
                return
            if v.ty.kind == "tuple":
                for i, t in enumerate(tgt.elts):
                    self.assign_target(s, t, self.tuple_get(v, i))
                return
            if v.ty.kind == "data":
                flds = list(self.reg.fields[v.ty.name])
                for t, f in zip(tgt.elts, flds):
                    self.assign_target(s, t, self.read_field(s, v, f))
                return
            raise Unsupported(f"unpacking of {v.ty}")
        if isinstance(tgt, ast.Attribute):
            base = self.ev_pure(tgt.value, s)
            if base.is_py:
                raise Unsupported(f"assignment to attribute of python object: {ast.unparse(tgt)}")
            self.write_field(s, base, tgt.attr, v)
            return
        if isinstance(tgt, ast.Subscript):
            lv = self._lvalue(tgt)
            cont = self.ev_pure(tgt.value, s)
            key = self.ev_pure(tgt.slice, s)
            if cont.is_py and isinstance(cont.t, dict):
                new = dict(cont.t)
                new[self._pykey(key)] = v
                self.store_lvalue(s, lv[1], py(new))
                return
            if cont.ty.kind == "dict" and cont.meta and cont.meta.get("empty") and (key.is_py or z3.is_string_value(key.t)):
                self.store_lvalue(s, lv[1], py({self._pykey(key): v}))     # python-level dict with concrete keys
                return
            if cont.ty.kind == "dict":
                if cont.meta and cont.meta.get("empty"):
                    kk = key if not key.is_py else self.lift(key.t)
                    vv = v if not v.is_py else self.lift(v.t)
                    cont = self.empty_dict(kk.ty, vv.ty)
                self.store_lvalue(s, lv[1], self.dict_set(cont, key, v))
                return
            raise Unsupported(f"item assignment on {cont.ty}")
        raise Unsupported(f"assignment target {type(tgt).__name__}")

    def ex_Delete(self, n, st):
        s = st
        for tgt in n.targets:
            if isinstance(tgt, ast.Subscript):
                cont = self.ev_pure(tgt.value, s)
                key = self.ev_pure(tgt.slice, s)
                if cont.is_py and isinstance(cont.t, dict):
                    new = dict(cont.t)
                    new.pop(self._pykey(key), None)
                    self.store_lvalue(s, self._lvalue(tgt.value), py(new))
                    continue
                ok, bad = self.branch(s, self.dict_has(cont, key), "del")
                if bad is not None:
                    self.raise_(bad, KeyError, where=n)
                if ok is None:
                    return []
                self.store_lvalue(ok, self._lvalue(tgt.value), self.dict_del(cont, key))
                s = ok
            elif isinstance(tgt, ast.Name):
                s.env.pop(tgt.id, None)
            else:
                raise Unsupported("del target")
        return [s]

    def ex_Return(self, n, st):
        if n.value is None:
            st.flow = ("return", Val(NONE, None))
            return [st]
        outs = []
        for s, v in self.ev(n.value, st):
            s.flow = ("return", v)
            outs.append(s)
        return outs

    def ex_Raise(self, n, st):
        if n.exc is None:
            cur = st.ghost.get("__handling__")
            if cur is None:
                raise Unsupported("bare raise outside handler")
            st.flow = ("raise", cur.t)
            return [st]
        outs = []
        for s, v in self.ev(n.exc, st):
            if v.is_py and isinstance(v.t, Exc):
                exc = v.t
            elif v.is_py and isinstance(v.t, type) and issubclass(v.t, BaseException):
                exc = Exc(v.t)
            else:
                raise Unsupported(f"raise of {v}")
            exc.where = n
            s.flow = ("raise", exc)
            outs.append(s)
        return outs

    def ex_Assert(self, n, st):
        outs = []
        for s, v in self.ev(n.test, st):
            t, f = self.branch(s, self.truth(v), "assert")
            if f is not None:
                self.raise_(f, AssertionError, where=n)
            if t is not None:
                outs.append(t)
        return outs

    def ex_Global(self, n, st):
        raise Unsupported("global statement")

    def ex_Nonlocal(self, n, st):
        raise Unsupported("nonlocal statement")

    def ex_Import(self, n, st):
        raise Unsupported("import inside function")

    ex_ImportFrom = ex_Import

    def ex_FunctionDef(self, n, st):
        mod = st.ghost.get("__module__")
        fn = st.ghost.get("__func__")
        qual = f"{fn.t}.<locals>.{n.name}" if fn else n.name
        st.env[n.name] = py(Closure(n, (st.env, st.closure), mod.t if mod else None, qual))
        return [st]

    def ex_Break(self, n, st):
        st.flow = ("break",)
        return [st]

    def ex_Continue(self, n, st):
        st.flow = ("continue",)
        return [st]

    # ---- branching ---------------------------------------------------------------------------------
    def ex_If(self, n, st):
        outs = []
        for s, c in self.ev(n.test, st):
            t, f = self.branch(s, self.truth(c), f"if@{n.lineno}")
            # `if x:` / `if not x:` on an Optional local: x is not None where it is truthy (its payload is used from there)
            name, positive = None, True
            if isinstance(n.test, ast.Name):
                name = n.test.id
            elif isinstance(n.test, ast.UnaryOp) and isinstance(n.test.op, ast.Not) and isinstance(n.test.operand, ast.Name):
                name, positive = n.test.operand.id, False
            if name is not None:
                tgt = t if positive else f
                v = tgt.env.get(name) if tgt is not None else None
                if v is not None and not v.is_py and v.ty.kind == "opt":
                    tgt.env[name] = self.unwrap(v)
            if t is not None:
                outs += self.exec_block(n.body, t)
            if f is not None:
                outs += self.exec_block(n.orelse, f) if n.orelse else [f]
        return outs

    # ---- try / with ----------------------------------------------------------------------------------
    def ex_Try(self, n, st):
        body_outs = self.exec_block(n.body, st)
        results = []
        for s in body_outs:
            if s.flow is not None and s.flow[0] == "raise":
                exc = s.flow[1]
                handled = False
                for h in n.handlers:
                    classes = self.handler_classes(h, s)
                    if classes is None or issubclass(exc.cls, classes):
                        s.flow = None
                        if h.name:
                            s.env[h.name] = py(exc)
                        prev = s.ghost.get("__handling__")
                        s.ghost["__handling__"] = py(exc)
                        for s2 in self.exec_block(h.body, s):
                            if prev is None:
                                s2.ghost.pop("__handling__", None)
                            else:
                                s2.ghost["__handling__"] = prev
                            results.append(s2)
                        handled = True
                        break
                    if any(issubclass(c, exc.cls) for c in (classes if isinstance(classes, tuple) else (classes,))) \
                            and exc.attrs.get("__from_contract__"):
                        # the callee's contract names a superclass; a handler for a subclass may or may not catch it
                        raise Unsupported(f"handler for subclass of contract-level exception {exc.cls.__name__}")
                if not handled:
                    results.append(s)
            elif s.flow is None and n.orelse:
                results += self.exec_block(n.orelse, s)
            else:
                results.append(s)
        if n.finalbody:
            final = []
            for s in results:
                flow = s.flow
                s.flow = None
                for s2 in self.exec_block(n.finalbody, s):
                    if s2.flow is None:
                        s2.flow = flow
                    final.append(s2)
            results = final
        return results

    def handler_classes(self, h, s):
        if h.type is None:
            return None
        v = self.ev_pure(h.type, s)
        if isinstance(v.t, tuple):
            return tuple(x.t if isinstance(x, Val) else x for x in v.t)
        return v.t

    def ex_With(self, n, st):
        if len(n.items) != 1:
            # nest
            inner = ast.With(items=n.items[1:], body=n.body, lineno=n.lineno, col_offset=n.col_offset)
            outer = ast.With(items=n.items[:1], body=[inner], lineno=n.lineno, col_offset=n.col_offset)
            return self.ex_With(outer, st)
        item = n.items[0]
        outs = []
        for s, cm in self.ev(item.context_expr, st):
            handler = self.with_model(cm)
            if handler is None:
                raise Unsupported(f"with on {cm}")
            outs += handler(self, s, cm, item.optional_vars, n.body)
        return outs

    def with_model(self, cm: Val):
        if cm.is_py and isinstance(cm.t, tuple) and cm.t and cm.t[0] == "suppress":
            classes = cm.t[1]

            def run(self, s, cm, var, body):
                res = []
                for s2 in self.exec_block(body, s):
                    if s2.flow is not None and s2.flow[0] == "raise" and issubclass(s2.flow[1].cls, classes):
                        s2.flow = None
                    res.append(s2)
                return res
            return run
        key = cm.ty.name if not cm.is_py else type(cm.t)
        return self.with_models.get(key)

    # ---- loops ---------------------------------------------------------------------------------------
    def loop_ordinal(self, node):
        return self.loop_index.get(id(node))

    def ex_For(self, n, st):
        outs = []
        for s, it in self.ev(n.iter, st):
            outs += self.run_for(n, s, it)
        return outs

    def concrete_items(self, it: Val):
        if it.is_py:
            c = it.t
            if isinstance(c, tuple) and c and isinstance(c[0], str) and c[0] in ("items", "values", "enumerate", "range") \
                    and len(c) >= 2 and isinstance(c[1], Val):
                return None
            if isinstance(c, dict):
                return [self.lift(k) for k in c.keys()]
            if isinstance(c, (list, tuple)):
                return [x if isinstance(x, Val) else (self.mk_tuple(list(x)) if isinstance(x, tuple) and self._has_val(x) else self.lift(x)) for x in c]
            if isinstance(c, (set, frozenset)):
                return None if len(c) > 1 else [self.lift(x) for x in c]
            return None
        if it.meta and it.meta.get("empty"):
            return []
        if it.ty.kind == "tuple":
            return [self.tuple_get(it, i) for i in range(len(it.ty.args))]
        if it.ty.kind == "seq" and it.meta and "elems" in it.meta:
            return it.meta["elems"]
        return None

    def run_for(self, n, st, it):
        items = self.concrete_items(it)
        if items is not None:
            return self.unroll_for(n, st, items)
        spec = self.loop_spec(n)
        if spec is None and self.effect_free(n):
            # nothing is assigned, mutated, returned or raised in the body (only dropped logging calls and pure tests):
            # the loop has no effect on the state (recorded: evaluation of its tests is assumed not to raise)
            self.stats["effect_free_loops_skipped"] += 1
            return [st]
        if spec is None:
            raise Unsupported(f"loop at line {n.lineno} over a symbolic collection has no loop contract")
        return self.invariant_for(n, st, it, spec)

    def unroll_for(self, n, st, items):
        states = [st]
        exits = []
        for x in items:
            nxt = []
            for s in states:
                s = s.copy()
                self.assign_target(s, n.target, x)
                for s2 in self.exec_block(n.body, s):
                    if s2.flow is None or s2.flow[0] == "continue":
                        s2.flow = None
                        nxt.append(s2)
                    elif s2.flow[0] == "break":
                        s2.flow = None
                        s2.ghost["__broke__"] = py(True)
                        exits.append(s2)
                    else:
                        exits.append(s2)
            states = nxt
        res = []
        for s in states:
            if n.orelse:
                res += self.exec_block(n.orelse, s)
            else:
                res.append(s)
        for s in exits:
            s.ghost.pop("__broke__", None)
            res.append(s)
        return res

    def effect_free(self, n):
        names, fields = self.modified_by(n.body)
        inner_targets = set()
        for b in n.body:
            for x in ast.walk(b):
                if isinstance(x, ast.For):
                    inner_targets |= self._target_names(x.target)
        if (names - inner_targets) or fields or n.orelse:
            return False
        for b in n.body:
            for x in ast.walk(b):
                if isinstance(x, (ast.Return, ast.Raise, ast.Break, ast.Yield, ast.YieldFrom, ast.Assert, ast.Delete, ast.With, ast.Try)):
                    return False
                if isinstance(x, ast.Expr) and isinstance(x.value, ast.Call) and not self.is_dropped_call(x.value):
                    return False
                if isinstance(x, ast.For) and not self.effect_free(x):
                    return False
        return True

    def loop_spec(self, n):
        c = self.current
        if c is None:
            return None
        ordn = self.loop_ordinal(n)
        return c.loops.get(ordn)

    def modified_by(self, body_nodes):
        """Syntactic frame of a loop body: assigned local names and written heap fields."""
        names, fields = set(), set()
        for b in body_nodes:
            for node in ast.walk(b):
                if isinstance(node, (ast.Assign, ast.AugAssign, ast.AnnAssign, ast.For, ast.NamedExpr, ast.comprehension, ast.With)):
                    tgts = []
                    if isinstance(node, ast.Assign):
                        tgts = node.targets
                    elif isinstance(node, ast.With):
                        tgts = [i.optional_vars for i in node.items if i.optional_vars is not None]
                    else:
                        tgts = [node.target]
                    for t in tgts:
                        for x in ast.walk(t):
                            if isinstance(x, ast.Name):
                                names.add(x.id)
                            elif isinstance(x, ast.Attribute) and isinstance(x.ctx, ast.Store):
                                fields.add((x.attr, x.value))
                            elif isinstance(x, ast.Subscript) and isinstance(x.ctx, ast.Store):
                                self._mut_path(x.value, names, fields)
                elif isinstance(node, ast.Call) and isinstance(node.func, ast.Attribute):
                    if node.func.attr in ("add", "append", "extend", "update", "setdefault", "remove", "pop", "discard", "sort", "write", "touch"):
                        self._mut_path(node.func.value, names, fields)
                elif isinstance(node, ast.Delete):
                    for t in node.targets:
                        if isinstance(t, ast.Subscript):
                            self._mut_path(t.value, names, fields)
                elif isinstance(node, ast.ExceptHandler) and node.name:
                    names.add(node.name)
        return names, fields

    def _mut_path(self, node, names, fields):
        while True:
            if isinstance(node, ast.Name):
                names.add(node.id)
                return
            if isinstance(node, ast.Attribute):
                fields.add((node.attr, node.value))
                return
            if isinstance(node, ast.Subscript):
                node = node.value
                continue
            if isinstance(node, ast.Call) and isinstance(node.func, ast.Attribute):
                node = node.func.value
                continue
            return

    _loop_assigned = frozenset()

    def havoc(self, s, names, fields, extra_fields=()):
        self._loop_assigned = frozenset(names)
        for nm in names:
            v = s.env.get(nm)
            if v is None:
                continue
            if v.is_py or v.ty.kind == "none" or (v.meta and v.meta.get("empty")):
                ty = self.current_loop_types.get(nm)
                if ty is None:
                    raise Unsupported(f"loop modifies {nm!r} whose symbolic type is unknown: declare it in the loop contract (types=)")
                s.env[nm] = self.fresh(self.reg.parse(ty), nm)
            else:
                s.env[nm] = self.fresh(v.ty, nm)
        for (cls, fld, recv) in list(self.reg_fields_named(fields, s)) + [(c, f, None) for c, f in extra_fields]:
            fty = self.reg.parse(self.reg.fields[cls][fld])
            if recv is not None:
                # the write goes through one known object: only its slot is havocked (frame kept for all others)
                arr = self.heap_array(s, cls, fld)
                s.heap[(cls, fld)] = z3.Store(arr, recv, z3.Const(fresh_name(f"hv_{cls}_{fld}"), self.reg.sort(fty)))
            else:
                s.heap[(cls, fld)] = z3.Const(fresh_name(f"heap_{cls}_{fld}"),
                                              z3.ArraySort(self.reg.sort(self.reg.ty_of_class(cls)), self.reg.sort(fty)))
        for g in self.current_loop_ghost:
            old = s.ghost.get(g)
            if isinstance(old, Val) and not old.is_py:
                s.ghost[g] = self.fresh(old.ty, "ghost_" + g)

    def reg_fields_named(self, fields, s=None):
        """fields: set of attribute names or (name, receiver AST).  The receiver's static class narrows the havoc."""
        out = {}
        for item in fields:
            name, recv = item if isinstance(item, tuple) else (item, None)
            owner, obj = None, None
            if recv is not None and s is not None:
                try:
                    v = self.ev_pure(recv, s)
                    if not v.is_py:
                        t = v.ty.args[0] if v.ty.kind == "opt" else v.ty
                        if t.kind == "ref":
                            owner = t.name
                            # only a loop-invariant receiver (a plain name not assigned in the loop) pins the object
                            if isinstance(recv, ast.Name) and v.ty.kind == "ref" and recv.id not in self._loop_assigned:
                                obj = v.t
                except Exception:
                    owner = None
            for cls, flds in self.reg.fields.items():
                if self.reg.kind.get(cls) != "ref" or name not in flds:
                    continue
                if owner is None or owner == cls:
                    key = (cls, name)
                    if key in out and (out[key] is None or obj is None or not out[key].eq(obj)):
                        out[key] = None
                    elif key not in out:
                        out[key] = obj
        return sorted(((c, f, o) for (c, f), o in out.items()), key=lambda x: (x[0], x[1]))

    def eval_inv(self, s, spec, extra):
        """Evaluate the loop invariant: parameters are looked up by name in `extra`, then in the environment."""
        import inspect
        params = list(inspect.signature(spec.inv).parameters)
        amap = {}
        for p in params:
            if p in extra:
                amap[p] = extra[p]
            elif p.startswith("old_") and p[4:] in self._loop_entry_env:
                amap[p] = self._loop_entry_env[p[4:]]
            else:
                amap[p] = self.lookup(p, s)
        return self.truth(self.eval_spec_fn(s, spec.inv, amap, pre_state=self._loop_entry_state))

    def invariant_for(self, n, st, it, spec):
        ordn = self.loop_ordinal(n)
        if spec.capture:
            import inspect as _i
            st = st.copy()
            for cname, cfn in spec.capture.items():
                amap = {p_: self.lookup(p_, st) for p_ in _i.signature(cfn).parameters}
                st.env[cname] = self.eval_spec_fn(st, cfn, amap)
        names, fields = self.modified_by(n.body)
        for x in ast.walk(n.target):
            if isinstance(x, ast.Name):
                names.add(x.id)
        self.current_loop_types = dict(spec.types)
        self.current_loop_ghost = list(spec.ghost)
        extra_fields = [tuple(f.split(".")) for f in spec.modifies]
        saved_entry = getattr(self, "_loop_entry_env", {})
        self._loop_entry_env = dict(st.env)
        saved_entry_state = getattr(self, "_loop_entry_state", None)
        self._loop_entry_state = st.copy()
        # the iterated collection as a sequence (index i) or set (done)
        items_of = None
        if it.is_py and isinstance(it.t, tuple) and it.t and it.t[0] == "items":
            items_of = it.t[1]
            it = Val(TSet(items_of.ty.args[0]), self.dict_dom(items_of))
        elif it.is_py and isinstance(it.t, tuple) and it.t and it.t[0] in ("values", "enumerate"):
            raise Unsupported("loop contract over dict.values()/enumerate")
        kind = it.ty.kind
        entry_ghost = {}
        rev_of = None
        if getattr(spec, "original_order", False):
            if not (it.meta and it.meta.get("reversed_of") is not None):
                raise Unsupported("original_order loop contract on a loop that does not iterate reversed(...)")
            rev_of = it.meta["reversed_of"]
            it = rev_of
        if kind in ("seq", "str"):
            idx0 = Val(INT, z3.IntVal(0))
            def extra_at(i, x=None):
                e = {"_i": i, "_it": it}
                if x is not None:
                    e["_x"] = x
                return e
            # 1. establishment
            self.emit(st, f"inv-init#{ordn}", self.eval_inv(st, spec, extra_at(idx0)), note=f"loop {ordn} invariant holds on entry")
            # 2. arbitrary iteration
            body_st = st.copy()
            self.havoc(body_st, names - self._target_names(n.target), fields, extra_fields)
            i = z3.Int(fresh_name("i"))
            body_st.assume(z3.And(0 <= i, i < z3.Length(it.t)), f"loop{ordn}:iter")
            body_st.assume(self.eval_inv(body_st, spec, extra_at(Val(INT, i))))
            x = self.seq_nth(it, i) if rev_of is None else self.seq_nth(it, z3.Length(it.t) - 1 - i)
            # universally quantified facts about the elements of the sequence (e.g. a callee's postcondition), instantiated
            # at the current index: a sound consequence that spares the solver the instantiation
            if rev_of is None:
                for hyp in list(body_st.pc):
                    if z3.is_quantifier(hyp) and hyp.is_forall() and hyp.num_vars() == 1 and hyp.var_sort(0) == z3.IntSort() \
                            and it.t.sexpr() in hyp.body().sexpr():
                        body_st.pc.append(z3.substitute_vars(hyp.body(), i))
            if x.ty.kind == "int" and isinstance(n.target, ast.Name):
                # name the current element: index arithmetic over a plain constant instead of seq.nth terms
                xc = z3.Int(fresh_name(n.target.id))
                body_st.assume(xc == x.t)
                x = Val(INT, xc)
            self.assign_target(body_st, n.target, x)
            body_st.env[f"_i{ordn}"] = Val(INT, i)
            exits = []
            for s2 in self.exec_block(n.body, body_st):
                if s2.flow is None or s2.flow[0] == "continue":
                    s2.flow = None
                    self.emit(s2, f"inv-preserve#{ordn}", self.eval_inv(s2, spec, extra_at(Val(INT, i + 1))),
                              note=f"loop {ordn} invariant preserved")
                elif s2.flow[0] == "break":
                    s2.flow = None
                    exits.append(s2)
                else:
                    exits.append(s2)
            # 3. after the loop
            after = st.copy()
            self.havoc(after, names, fields, extra_fields)
            after.assume(self.eval_inv(after, spec, extra_at(Val(INT, z3.Length(it.t)))), f"loop{ordn}:exit")
            res = []
            if n.orelse:
                res += self.exec_block(n.orelse, after)
            else:
                res.append(after)
            self._loop_entry_env = saved_entry
            self._loop_entry_state = saved_entry_state
            return res + exits
        if kind in ("set", "dict"):
            setv = it if kind == "set" else Val(TSet(it.ty.args[0]), self.dict_dom(it))
            et = setv.ty.args[0]
            empty = self.empty_set(et)
            def extra_at(done, x=None):
                e = {"_done": done, "_it": setv}
                if x is not None:
                    e["_x"] = x
                return e
            self.emit(st, f"inv-init#{ordn}", self.eval_inv(st, spec, extra_at(empty)), note=f"loop {ordn} invariant holds on entry")
            body_st = st.copy()
            self.havoc(body_st, names - self._target_names(n.target), fields, extra_fields)
            done = self.fresh(TSet(et), "done")
            x = self.fresh(et, "x")
            body_st.assume(z3.And(self.set_subset(done, setv), setv.t[x.t], z3.Not(done.t[x.t])), f"loop{ordn}:iter")
            body_st.assume(self.eval_inv(body_st, spec, extra_at(done)))
            body_st.env[f"_done{ordn}"] = done
            if items_of is not None:
                self.assign_target(body_st, n.target, py((x, self.dict_get(items_of, x))))
            else:
                self.assign_target(body_st, n.target, x)
            exits = []
            done2 = self.set_add(done, x)
            for s2 in self.exec_block(n.body, body_st):
                if s2.flow is None or s2.flow[0] == "continue":
                    s2.flow = None
                    self.emit(s2, f"inv-preserve#{ordn}", self.eval_inv(s2, spec, extra_at(done2)),
                              note=f"loop {ordn} invariant preserved")
                elif s2.flow[0] == "break":
                    s2.flow = None
                    exits.append(s2)
                else:
                    exits.append(s2)
            after = st.copy()
            self.havoc(after, names, fields, extra_fields)
            after.assume(self.eval_inv(after, spec, extra_at(setv)), f"loop{ordn}:exit")
            res = self.exec_block(n.orelse, after) if n.orelse else [after]
            self._loop_entry_env = saved_entry
            self._loop_entry_state = saved_entry_state
            return res + exits
        raise Unsupported(f"loop over {it.ty}")

    def _target_names(self, t):
        return {x.id for x in ast.walk(t) if isinstance(x, ast.Name)}

    def ex_While(self, n, st):
        spec = self.loop_spec(n)
        if spec is None:
            raise Unsupported(f"while loop at line {n.lineno} has no loop contract")
        ordn = self.loop_ordinal(n)
        names, fields = self.modified_by(n.body)
        self.current_loop_types = dict(spec.types)
        self.current_loop_ghost = list(spec.ghost)
        saved_entry = getattr(self, "_loop_entry_env", {})
        self._loop_entry_env = dict(st.env)
        self._loop_entry_state = st.copy()
        self.emit(st, f"inv-init#{ordn}", self.eval_inv(st, spec, {}), note=f"while {ordn} invariant holds on entry")
        body_st = st.copy()
        self.havoc(body_st, names, fields)
        body_st.assume(self.eval_inv(body_st, spec, {}), f"while{ordn}:iter")
        exits = []
        measure0 = None
        if spec.decreases is not None:
            import inspect
            amap = {p: self.lookup(p, body_st) for p in inspect.signature(spec.decreases).parameters}
            measure0 = self.eval_spec_fn(body_st, spec.decreases, amap)
        for s, c in self.ev(n.test, body_st):
            t, f = self.branch(s, self.truth(c), f"while@{n.lineno}")
            if f is not None:
                exits.append(f)
            if t is None:
                continue
            for s2 in self.exec_block(n.body, t):
                if s2.flow is None or s2.flow[0] == "continue":
                    s2.flow = None
                    self.emit(s2, f"inv-preserve#{ordn}", self.eval_inv(s2, spec, {}), note=f"while {ordn} invariant preserved")
                    if measure0 is not None:
                        import inspect
                        amap = {p: self.lookup(p, s2) for p in inspect.signature(spec.decreases).parameters}
                        m1 = self.eval_spec_fn(s2, spec.decreases, amap)
                        self.emit(s2, f"decreases#{ordn}", z3.And(measure0.t >= 0, m1.t < measure0.t), note="loop variant decreases")
                elif s2.flow[0] == "break":
                    s2.flow = None
                    exits.append(s2)
                else:
                    exits.append(s2)
        self._loop_entry_env = saved_entry
        res = []
        for s in exits:
            if s.flow is None and n.orelse:
                res += self.exec_block(n.orelse, s)
            else:
                res.append(s)
        return res
