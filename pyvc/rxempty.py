"""Emptiness of a Boolean combination of regular languages given as z3 RegLan terms, by Brzozowski derivatives over a
finite partition of the alphabet (z3's own regex solver does not terminate in useful time on intersections of several
complemented file-name patterns).  `nonempty(literals)` -> (True, witness) | (False, None) | (None, None) when the state
budget is exceeded or an operator is not understood.  A witness is always re-validated by z3 on the concrete string by the
caller; an `empty` answer rests on this module (listed in the trusted base)."""
from __future__ import annotations

import z3

MAXCHAR = 0x2FFFF
EPS, EMPTY = ("eps",), ("empty",)


class Unsupported(Exception):
    pass


def _chars_of(s):
    import re
    s = re.sub(r"\\u\{([0-9a-fA-F]+)\}", lambda m: chr(int(m.group(1), 16)), s)
    return s


def _conv(r, bounds):
    """z3 regex -> tree over ('cls', ((lo,hi),...)) leaves; collects interval boundaries"""
    k = r.decl().kind()
    ch = r.children()
    if k == z3.Z3_OP_SEQ_TO_RE:
        if not z3.is_string_value(ch[0]):
            raise Unsupported("non-constant str.to_re")
        out = EPS
        for c in reversed(_chars_of(ch[0].as_string())):
            o = ord(c)
            bounds.update((o, o + 1))
            out = _cat(("cls", ((o, o),)), out)
        return out
    if k == z3.Z3_OP_RE_CONCAT:
        out = EPS
        for c in reversed(ch):
            out = _cat(_conv(c, bounds), out)
        return out
    if k == z3.Z3_OP_RE_UNION:
        return _union([_conv(c, bounds) for c in ch])
    if k == z3.Z3_OP_RE_INTERSECT:
        return _inter([_conv(c, bounds) for c in ch])
    if k == z3.Z3_OP_RE_STAR:
        return _star(_conv(ch[0], bounds))
    if k == z3.Z3_OP_RE_PLUS:
        x = _conv(ch[0], bounds)
        return _cat(x, _star(x))
    if k == z3.Z3_OP_RE_OPTION:
        return _union([EPS, _conv(ch[0], bounds)])
    if k == z3.Z3_OP_RE_COMPLEMENT:
        return _comp(_conv(ch[0], bounds))
    if k == z3.Z3_OP_RE_RANGE:
        if not (z3.is_string_value(ch[0]) and z3.is_string_value(ch[1])):
            raise Unsupported("symbolic range")
        a, b = _chars_of(ch[0].as_string()), _chars_of(ch[1].as_string())
        if len(a) != 1 or len(b) != 1:
            return EMPTY
        lo, hi = ord(a), ord(b)
        if lo > hi:
            return EMPTY
        bounds.update((lo, hi + 1))
        return ("cls", ((lo, hi),))
    if k == z3.Z3_OP_RE_FULL_SET:
        return _star(("cls", ((0, MAXCHAR),)))
    if k == z3.Z3_OP_RE_EMPTY_SET:
        return EMPTY
    if k == z3.Z3_OP_RE_LOOP:
        lo = r.params()[0]
        hi = r.params()[1] if len(r.params()) > 1 else None
        x = _conv(ch[0], bounds)
        out = EPS if hi is not None else _star(x)
        if hi is not None:
            for _ in range(hi - lo):
                out = _union([EPS, _cat(x, out)])
        for _ in range(lo):
            out = _cat(x, out)
        return out
    name = r.decl().name()
    if name in ("re.allchar", "re.all_char"):
        return ("cls", ((0, MAXCHAR),))
    if name == "re.all":
        return _star(("cls", ((0, MAXCHAR),)))
    raise Unsupported(f"regex operator {name}")


# ---- smart constructors (similarity classes keep the derivative automaton finite and small) ------------------------------
def _cat(a, b):
    if a == EMPTY or b == EMPTY:
        return EMPTY
    if a == EPS:
        return b
    if b == EPS:
        return a
    if a[0] == "cat":
        return _cat(a[1], _cat(a[2], b))
    return ("cat", a, b)


def _union(xs):
    flat = set()
    for x in xs:
        if x[0] == "or":
            flat |= set(x[1])
        elif x != EMPTY:
            flat.add(x)
    if any(x == ("not", EMPTY) for x in flat):
        return ("not", EMPTY)
    if not flat:
        return EMPTY
    if len(flat) == 1:
        return next(iter(flat))
    return ("or", frozenset(flat))


def _inter(xs):
    flat = set()
    for x in xs:
        if x[0] == "and":
            flat |= set(x[1])
        elif x == EMPTY:
            return EMPTY
        elif x != ("not", EMPTY):
            flat.add(x)
    if not flat:
        return ("not", EMPTY)
    if len(flat) == 1:
        return next(iter(flat))
    return ("and", frozenset(flat))


def _star(x):
    if x in (EPS, EMPTY):
        return EPS
    if x[0] == "star":
        return x
    return ("star", x)


def _comp(x):
    if x[0] == "not":
        return x[1]
    return ("not", x)


_NULL = {}


def nullable(r):
    v = _NULL.get(r)
    if v is not None:
        return v
    k = r[0]
    if k == "eps" or k == "star":
        v = True
    elif k in ("empty", "cls", "set"):
        v = False
    elif k == "cat":
        v = nullable(r[1]) and nullable(r[2])
    elif k == "or":
        v = any(nullable(x) for x in r[1])
    elif k == "and":
        v = all(nullable(x) for x in r[1])
    else:
        v = not nullable(r[1])
    _NULL[r] = v
    return v


def _finalise(r, parts, cache):
    """replace ('cls', ranges) by ('set', frozenset(partition indices))"""
    v = cache.get(r)
    if v is not None:
        return v
    k = r[0]
    if k == "cls":
        idx = set()
        for lo, hi in r[1]:
            for i, (a, b) in enumerate(parts):
                if a >= lo and b <= hi:
                    idx.add(i)
        v = ("set", frozenset(idx)) if idx else EMPTY
    elif k in ("eps", "empty"):
        v = r
    elif k == "cat":
        v = _cat(_finalise(r[1], parts, cache), _finalise(r[2], parts, cache))
    elif k == "or":
        v = _union([_finalise(x, parts, cache) for x in r[1]])
    elif k == "and":
        v = _inter([_finalise(x, parts, cache) for x in r[1]])
    elif k == "star":
        v = _star(_finalise(r[1], parts, cache))
    else:
        v = _comp(_finalise(r[1], parts, cache))
    cache[r] = v
    return v


def deriv(r, a, cache):
    key = (r, a)
    v = cache.get(key)
    if v is not None:
        return v
    k = r[0]
    if k in ("eps", "empty"):
        v = EMPTY
    elif k == "set":
        v = EPS if a in r[1] else EMPTY
    elif k == "cat":
        v = _cat(deriv(r[1], a, cache), r[2])
        if nullable(r[1]):
            v = _union([v, deriv(r[2], a, cache)])
    elif k == "or":
        v = _union([deriv(x, a, cache) for x in r[1]])
    elif k == "and":
        v = _inter([deriv(x, a, cache) for x in r[1]])
    elif k == "star":
        v = _cat(deriv(r[1], a, cache), r)
    else:
        v = _comp(deriv(r[1], a, cache))
    cache[key] = v
    return v


def nonempty(literals, max_states=60000):
    """literals: [(z3 RegLan, positive?)] -> is the intersection of the (complemented) languages non-empty?"""
    bounds = {0, MAXCHAR + 1}
    try:
        trees = [(_conv(R, bounds), pos) for R, pos in literals]
    except Unsupported:
        return None, None
    pts = sorted(b for b in bounds if 0 <= b <= MAXCHAR + 1)
    parts = [(pts[i], pts[i + 1] - 1) for i in range(len(pts) - 1)]
    if len(parts) > 300:
        return None, None      # large Unicode categories: leave it to the SMT solver
    cache = {}
    start = _inter([_finalise(t, parts, cache) if pos else _comp(_finalise(t, parts, cache)) for t, pos in trees])
    reps = []
    for a, b in parts:           # a readable representative per class
        c = a
        for cand in (ord("a"), ord("A"), ord("0"), ord(" ")):
            if a <= cand <= b:
                c = cand
        reps.append(chr(c))
    seen = {start: None}
    queue = [start]
    dcache = {}
    while queue:
        nxt = []
        for st in queue:
            if nullable(st):
                w = []
                while seen[st] is not None:
                    st, a = seen[st]
                    w.append(reps[a])
                return True, "".join(reversed(w))
            for a in range(len(parts)):
                d = deriv(st, a, dcache)
                if d == EMPTY or d in seen:
                    continue
                seen[d] = (st, a)
                nxt.append(d)
                if len(seen) > max_states:
                    return None, None
        queue = nxt
    return False, None


def decide(literals, timeout_ms=20000):
    """('sat', witness) | ('unsat', None) | ('unknown', None) for the intersection of the (complemented) languages:
    derivatives first (a witness is re-validated by z3 on the concrete string), the SMT solver as fallback"""
    ok, w = nonempty(literals)
    if ok is False:
        return "unsat", None
    if ok is True:
        sv = z3.StringVal(w)
        if all(z3.is_true(z3.simplify(z3.InRe(sv, R))) == pos for R, pos in literals):
            return "sat", w
    x = z3.String("w")
    s = z3.Solver()
    s.set("timeout", timeout_ms)
    for R, pos in literals:
        s.add(z3.InRe(x, R) if pos else z3.Not(z3.InRe(x, R)))
    r = s.check()
    if r == z3.sat:
        v = s.model()[x]
        return "sat", _chars_of(v.as_string() if v is not None else "")
    return ("unsat", None) if r == z3.unsat else ("unknown", None)
