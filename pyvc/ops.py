"""Primitive operations on symbolic values with CPython semantics."""
from __future__ import annotations

import z3

from .state import Val, py, Unsupported, fresh_name
from .types import (Ty, INT, BOOL, STR, NONE, PY, TOpt, TSet, TDict, TSeq, TTuple)


def zmax(a, b): return z3.If(a >= b, a, b)
def zmin(a, b): return z3.If(a <= b, a, b)


class OpsMixin:
    # ---- lifting ----------------------------------------------------
    def lift(self, obj, want: Ty | None = None) -> Val:
        """Concrete Python object -> Val (symbolic constant where a sort exists)."""
        reg = self.reg
        if isinstance(obj, Val):
            return obj
        if obj is None:
            if want is not None and want.kind == "opt":
                return Val(want, getattr(reg.sort(want), "none"))
            return Val(NONE, None)
        if isinstance(obj, bool):
            return Val(BOOL, z3.BoolVal(obj))
        if isinstance(obj, int):
            return Val(INT, z3.IntVal(obj))
        if isinstance(obj, str):
            return Val(STR, z3.StringVal(obj))
        import enum
        if isinstance(obj, enum.Enum) and type(obj) in reg.by_pyclass:
            name = reg.by_pyclass[type(obj)]
            return Val(reg.ty_of_class(name), reg.enum_val(name, obj.name))
        return py(obj)

    def fresh(self, ty: Ty, prefix="v") -> Val:
        if ty.kind == "py":
            raise Unsupported(f"cannot make a fresh value of unknown type ({prefix})")
        if ty.kind == "none":
            return Val(NONE, None)
        return Val(ty, z3.Const(fresh_name(prefix), self.reg.sort(ty)))

    def coerce(self, v: Val, ty: Ty) -> Val:
        """Fit v into static type ty (None -> Optional none, T -> Optional some, py constants -> terms)."""
        if v.ty == ty or ty.kind in ("py", "any"):
            return v
        hook = self.coerce_hooks.get((v.ty.kind if not v.is_py else type(v.t).__name__, ty.name or ty.kind))
        if hook is not None:
            return hook(self, v, ty)
        if v.is_py and ty.kind == "opt" and v.t is not None and not isinstance(v.t, (bool, int, str)):
            inner = self.coerce(v, ty.args[0])
            return Val(ty, self.reg.sort(ty).some(inner.t))
        if v.is_py:
            lv = self.lift(v.t, ty)
            if lv.is_py:
                if isinstance(v.t, (set, frozenset, list, tuple, dict)):
                    return self.coerce(self.build_collection(v.t, ty), ty)
                raise Unsupported(f"cannot coerce python object {v.t!r} to {ty}")
            return self.coerce(lv, ty)
        if ty.kind == "opt" and v.ty.kind == "opt":
            srt = self.reg.sort(ty)
            inner = self.coerce(self.unwrap(v), ty.args[0])
            return Val(ty, z3.If(self.is_none(v), srt.none, srt.some(inner.t)))
        if ty.kind == "opt":
            srt = self.reg.sort(ty)
            if v.ty.kind == "none":
                return Val(ty, srt.none)
            inner = self.coerce(v, ty.args[0])
            return Val(ty, srt.some(inner.t))
        if v.ty.kind == "opt" and v.ty.args[0] == ty:
            # caller asserts not-None (used after an `is None` test)
            return Val(ty, self.reg.sort(v.ty).val(v.t))
        if ty.kind == "seq" and v.ty.kind == "tuple":
            elems = [self.tuple_get(v, i) for i in range(len(v.ty.args))]
            return self.mk_seq([self.coerce(e, ty.args[0]) for e in elems], ty.args[0])
        if v.ty.kind == "seq" and ty.kind == "seq" and v.meta and v.meta.get("empty"):
            return Val(ty, z3.Empty(self.reg.sort(ty)))
        if v.ty.kind == "set" and ty.kind == "set" and v.meta and v.meta.get("empty"):
            return self.empty_set(ty.args[0])
        if v.ty.kind == "dict" and ty.kind == "dict" and v.meta and v.meta.get("empty"):
            e = self.empty_dict(ty.args[0], ty.args[1])
            return Val(ty, e.t)
        if v.ty.kind == "dict" and ty.kind == "dict" and v.ty.args == ty.args:
            return Val(ty, v.t)        # dict <-> defaultdict views of the same mapping
        raise Unsupported(f"cannot coerce {v.ty} to {ty}")

    def build_collection(self, obj, ty):
        if ty.kind == "set":
            r = self.empty_set(ty.args[0])
            for e in obj:
                r = self.set_add(r, self.coerce(self.lift(e), ty.args[0]))
            return r
        if ty.kind == "seq":
            return self.mk_seq([self.coerce(self.lift(e), ty.args[0]) for e in obj], ty.args[0])
        if ty.kind == "dict":
            r = self.empty_dict(*ty.args)
            for k, v in obj.items():
                r = self.dict_set(r, self.coerce(self.lift(k), ty.args[0]), self.coerce(self.lift(v), ty.args[1]))
            return r
        raise Unsupported(f"cannot build {ty} from python object")

    # ---- truthiness (by static type; DESIGN 2.3) -----------------------
    def truth(self, v: Val):
        k = v.ty.kind
        if k == "py":
            if isinstance(v.t, (bool, int, str, bytes, type(None), tuple, list, dict, set, frozenset)):
                return z3.BoolVal(bool(v.t))
            import re
            if isinstance(v.t, (type, re.Pattern)) or callable(v.t):
                return z3.BoolVal(True)
            if hasattr(type(v.t), "__bool__") or hasattr(type(v.t), "__len__"):
                raise Unsupported(f"truthiness of python object {type(v.t)}")
            return z3.BoolVal(True)
        if k == "bool":
            return v.t
        if k == "int":
            return v.t != 0
        if k == "str" or k == "seq":
            return z3.Length(v.t) > 0
        if k == "none":
            return z3.BoolVal(False)
        if k == "opt":
            srt = self.reg.sort(v.ty)
            inner = Val(v.ty.args[0], srt.val(v.t))
            return z3.And(srt.is_some(v.t), self.truth(inner))
        if k == "set":
            return v.t != self.empty_set(v.ty.args[0]).t
        if k == "dict":
            return self.dict_dom(v) != self.empty_set(v.ty.args[0]).t
        if k == "tuple":
            return z3.BoolVal(len(v.ty.args) > 0)
        if k in ("ref", "data"):
            hook = self.truth_hooks.get(v.ty.name)
            if hook is not None:
                return hook(self, v)
            cls = self.reg.pyclass.get(v.ty.name)
            if cls is not None and (getattr(cls, "__bool__", None) or getattr(cls, "__len__", None)):
                raise Unsupported(f"truthiness of {v.ty.name} needs a hook (__bool__ defined)")
            return z3.BoolVal(True)
        if k in ("enum", "abs"):
            hook = self.truth_hooks.get(v.ty.name)
            if hook is not None:
                return hook(self, v)
            return z3.BoolVal(True)
        raise Unsupported(f"truthiness of {v.ty}")

    # ---- sets / dicts / seqs -----------------------------------------------
    def empty_set(self, elem: Ty) -> Val:
        return Val(TSet(elem), z3.K(self.reg.sort(elem), z3.BoolVal(False)))

    def set_add(self, s: Val, e: Val) -> Val:
        e = self.coerce(e, s.ty.args[0])
        return Val(s.ty, z3.Store(s.t, e.t, z3.BoolVal(True)))

    def set_has(self, s: Val, e: Val):
        e = self.coerce(e, s.ty.args[0])
        return z3.Select(s.t, e.t)

    def _is_lambda(self, t):
        return z3.is_quantifier(t) or not z3.is_array(t)

    def _pointwise(self, a: Val, b: Val, fn) -> Val:
        x = z3.Const(f"bvset_{self.reg.sort(a.ty.args[0])}", self.reg.sort(a.ty.args[0]))
        return Val(a.ty, z3.Lambda([x], fn(z3.Select(a.t, x), z3.Select(b.t, x))))

    def set_union(self, a: Val, b: Val) -> Val:
        if self._is_lambda(a.t) or self._is_lambda(b.t):
            return self._pointwise(a, b, lambda p, q: z3.Or(p, q))
        return Val(a.ty, z3.Map(self._f_or, a.t, b.t))

    def set_inter(self, a, b):
        if self._is_lambda(a.t) or self._is_lambda(b.t):
            return self._pointwise(a, b, lambda p, q: z3.And(p, q))
        return Val(a.ty, z3.Map(self._f_and, a.t, b.t))

    def set_diff(self, a, b):
        if self._is_lambda(a.t) or self._is_lambda(b.t):
            return self._pointwise(a, b, lambda p, q: z3.And(p, z3.Not(q)))
        return Val(a.ty, z3.Map(self._f_and, a.t, z3.Map(self._f_not, b.t)))

    def set_subset(self, a, b):
        if not (z3.is_array(a.t) and z3.is_array(b.t)) or z3.is_quantifier(a.t) or z3.is_quantifier(b.t):
            x = z3.Const(fresh_name("sx"), self.reg.sort(a.ty.args[0]))
            return z3.ForAll([x], z3.Implies(z3.Select(a.t, x), z3.Select(b.t, x)))
        return z3.Map(self._f_and, a.t, z3.Map(self._f_not, b.t)) == self.empty_set(a.ty.args[0]).t

    @property
    def _f_or(self): return z3.Or(z3.Bool("a"), z3.Bool("b")).decl()
    @property
    def _f_and(self): return z3.And(z3.Bool("a"), z3.Bool("b")).decl()
    @property
    def _f_not(self): return z3.Not(z3.Bool("a")).decl()

    def empty_dict(self, k: Ty, v: Ty) -> Val:
        ty = TDict(k, v)
        srt = self.reg.sort(ty)
        dflt = z3.Const("dflt_" + self.reg._sname(v), self.reg.sort(v))
        return Val(ty, srt.mkdict(self.empty_set(k).t, z3.K(self.reg.sort(k), dflt)))

    def dict_dom(self, d: Val):
        return self.reg.sort(d.ty).dom(d.t)

    def dict_vals(self, d: Val):
        return self.reg.sort(d.ty).val(d.t)

    def dict_has(self, d: Val, k: Val):
        k = self.coerce(k, d.ty.args[0])
        return z3.Select(self.dict_dom(d), k.t)

    def dict_get(self, d: Val, k: Val) -> Val:
        k = self.coerce(k, d.ty.args[0])
        return Val(d.ty.args[1], z3.Select(self.dict_vals(d), k.t))

    def dict_set(self, d: Val, k: Val, v: Val) -> Val:
        k = self.coerce(k, d.ty.args[0])
        v = self.coerce(v, d.ty.args[1])
        srt = self.reg.sort(d.ty)
        return Val(d.ty, srt.mkdict(z3.Store(self.dict_dom(d), k.t, z3.BoolVal(True)),
                                    z3.Store(self.dict_vals(d), k.t, v.t)))

    def dict_del(self, d: Val, k: Val) -> Val:
        k = self.coerce(k, d.ty.args[0])
        srt = self.reg.sort(d.ty)
        return Val(d.ty, srt.mkdict(z3.Store(self.dict_dom(d), k.t, z3.BoolVal(False)), self.dict_vals(d)))

    def mk_seq(self, elems, elem_ty: Ty) -> Val:
        srt = self.reg.sort(TSeq(elem_ty))
        if not elems:
            return Val(TSeq(elem_ty), z3.Empty(srt))
        units = [z3.Unit(self.coerce(e, elem_ty).t) for e in elems]
        t = units[0] if len(units) == 1 else z3.Concat(*units)
        return Val(TSeq(elem_ty), t, {"elems": list(elems)})

    def elems_of(self, s: Val):
        """elems(seq): the set of elements (uninterpreted; construction sites state its defining facts)."""
        et = s.ty.args[0]
        f = self.uf("elems_" + self.reg._sname(s.ty), [self.reg.sort(s.ty)], self.reg.sort(TSet(et)))
        t = f(s.t)
        key = s.t.get_id()
        if key not in self._elems_done:
            self._elems_done.add(key)
            x = s.t
            empty = self.empty_set(et).t
            if z3.is_app(x) and x.decl().kind() == z3.Z3_OP_SEQ_EMPTY:
                self.axioms.append(t == empty)
            elif z3.is_app(x) and x.decl().kind() == z3.Z3_OP_SEQ_UNIT:
                self.axioms.append(t == z3.Store(empty, x.arg(0), z3.BoolVal(True)))
            elif z3.is_app(x) and x.decl().kind() == z3.Z3_OP_SEQ_CONCAT:
                parts = [self.elems_of(Val(s.ty, c)) for c in x.children()]
                u = parts[0]
                for p_ in parts[1:]:
                    u = z3.Map(self._f_or, u, p_)
                self.axioms.append(t == u)
        return t

    def seq_elem_ty(self, v: Val) -> Ty:
        return STR if v.ty.kind == "str" else v.ty.args[0]

    def seq_nth(self, s: Val, i) -> Val:
        if s.ty.kind == "str":
            return Val(STR, z3.SubString(s.t, i, 1))
        return Val(s.ty.args[0], s.t[i])

    def seq_elems(self, s: Val) -> Val:
        """set of elements of a sequence (uninterpreted, with the membership axiom added lazily)."""
        et = s.ty.args[0]
        f = self.uf("elems_" + self.reg._sname(s.ty), [self.reg.sort(s.ty)], self.reg.sort(TSet(et)))
        r = Val(TSet(et), self.elems_of(s))
        j = z3.Int(fresh_name("j"))
        e = z3.Const(fresh_name("e"), self.reg.sort(et))
        w = self.uf("elemidx_" + self.reg._sname(s.ty), [self.reg.sort(s.ty), self.reg.sort(et)], z3.IntSort())
        key = ("seq_elems", s.t.get_id())
        if key in self._elems_done:
            return r
        self._elems_done.add(key)
        self.axioms.append(z3.ForAll([j], z3.Implies(z3.And(0 <= j, j < z3.Length(s.t)), z3.Select(r.t, s.t[j]))))
        self.axioms.append(z3.ForAll([e], z3.Implies(z3.Select(r.t, e),
                                                     z3.And(0 <= w(s.t, e), w(s.t, e) < z3.Length(s.t), s.t[w(s.t, e)] == e))))
        return r

    def tuple_get(self, v: Val, i: int) -> Val:
        if v.is_py:
            x = v.t[i]
            return x if isinstance(x, Val) else self.lift(x)
        if v.meta and "elems" in v.meta:
            return v.meta["elems"][i]          # projection of a tuple built here: the component itself
        srt = self.reg.sort(v.ty)
        return Val(v.ty.args[i], srt.accessor(0, i)(v.t))

    def mk_tuple(self, elems) -> Val:
        if any(e.is_py for e in elems):
            return py(tuple(elems))  # heterogeneous python-level tuple of Vals
        ty = TTuple(*[e.ty for e in elems])
        srt = self.reg.sort(ty)
        return Val(ty, srt.mktup(*[e.t for e in elems]), {"elems": list(elems)})

    # ---- string slicing with Python's clamping ------------------------------
    def norm_index(self, i, n):
        if z3.is_int_value(i):
            c = i.as_long()
            if c >= 0:
                return zmin(i, n)
            return zmax(n + c, z3.IntVal(0))
        # when the path condition (its quantifier-free part) already settles the sign / the bound, use the plain index:
        # the nested if-then-else form is equivalent but much harder on the string solvers
        if self._entailed(i >= 0):
            return i if self._entailed(i <= n) else zmin(i, n)
        return z3.If(i < 0, zmax(i + n, z3.IntVal(0)), zmin(i, n))

    def _entailed(self, c):
        pc = getattr(self, "_slice_pc", None)
        if not pc:
            return False
        q = z3.Solver()
        q.set("timeout", 300)
        q.add(*[h for h in pc if not self._has_quant(h) and not self._big_regex(h)])
        q.add(z3.Not(c))
        return q.check() == z3.unsat

    def slice(self, s: Val, lo, hi) -> Val:
        n = z3.Length(s.t)
        lo_t = z3.IntVal(0) if lo is None else (lo[1] if isinstance(lo, tuple) else self.norm_index(lo, n))
        hi_t = n if hi is None else (hi[1] if isinstance(hi, tuple) else self.norm_index(hi, n))
        d = z3.simplify(hi_t - lo_t)
        ln = d if self._entailed(d >= 0) else zmax(d, z3.IntVal(0))
        return Val(s.ty, z3.SubString(s.t, lo_t, ln))

    # ---- equality --------------------------------------------------------------
    def eq(self, a: Val, b: Val):
        for x, y in ((a, b), (b, a)):
            if x.meta and x.meta.get("empty") and not y.is_py and not (y.meta and y.meta.get("empty")):
                if y.ty.kind == "dict":
                    return self.dict_dom(y) == self.empty_set(y.ty.args[0]).t
                if y.ty.kind == "set":
                    return y.t == self.empty_set(y.ty.args[0]).t
                if y.ty.kind in ("seq", "str"):
                    return z3.Length(y.t) == 0
                if y.ty.kind == "opt":
                    return z3.And(z3.Not(self.is_none(y)), self.eq(x, self.unwrap(y)))
        if a.is_py and b.is_py:
            return z3.BoolVal(self._py_eq(a.t, b.t))
        if a.is_py:
            a = self.lift_like(a, b.ty)
        if b.is_py:
            b = self.lift_like(b, a.ty)
        if a.ty == b.ty:
            if a.ty.kind == "none":
                return z3.BoolVal(True)
            return a.t == b.t
        # Optional vs plain
        if a.ty.kind == "opt" and (b.ty == a.ty.args[0] or b.ty.kind == "none"):
            return a.t == self.coerce(b, a.ty).t
        if b.ty.kind == "opt" and (a.ty == b.ty.args[0] or a.ty.kind == "none"):
            return self.coerce(a, b.ty).t == b.t
        if a.ty.kind == "none" or b.ty.kind == "none":
            return z3.BoolVal(False)
        if {a.ty.kind, b.ty.kind} <= {"seq", "tuple"}:
            return self.coerce(a, b.ty).t == b.t if b.ty.kind == "seq" else a.t == self.coerce(b, a.ty).t
        # different static types: never equal in the subset (str vs int, ...)
        if a.ty.kind in ("int", "str", "bool") and b.ty.kind in ("int", "str", "bool"):
            return z3.BoolVal(False)
        raise Unsupported(f"equality between {a.ty} and {b.ty}")

    def _py_eq(self, x, y):
        if isinstance(x, tuple) and isinstance(y, tuple) and any(isinstance(e, Val) for e in x + y):
            raise Unsupported("equality of mixed tuples")
        return x == y

    def lift_like(self, v: Val, ty: Ty) -> Val:
        try:
            return self.coerce(v, ty)
        except Unsupported:
            lv = self.lift(v.t)
            if lv.is_py:
                raise
            return lv

    def is_none(self, v: Val):
        if v.meta and isinstance(v.meta, dict) and "match" in v.meta and v.ty.kind == "bool":
            return z3.Not(v.t)         # result of pattern.match/search/fullmatch: None exactly when there is no match
        if v.ty.kind == "none":
            return z3.BoolVal(True)
        if v.is_py:
            return z3.BoolVal(v.t is None)
        if v.ty.kind == "opt":
            return self.reg.sort(v.ty).is_none(v.t)
        return z3.BoolVal(False)

    def unwrap(self, v: Val) -> Val:
        if v.ty.kind == "opt":
            return Val(v.ty.args[0], self.reg.sort(v.ty).val(v.t))
        return v

    def uf(self, name, dom, rng):
        key = (name, tuple(map(str, dom)), str(rng))
        if key not in self._ufs:
            self._ufs[key] = z3.Function(name, *dom, rng)
        return self._ufs[key]

    def ite(self, c, a: Val, b: Val) -> Val:
        if z3.is_true(c):
            return a
        if z3.is_false(c):
            return b
        if a.is_py and b.is_py:
            if a.t is b.t or self._safe_eq(a.t, b.t):
                return a
            la, lb = self.lift(a.t), self.lift(b.t)
            if la.is_py or lb.is_py:
                if la.ty.kind == "none" and not lb.is_py:
                    pass
                elif lb.ty.kind == "none" and not la.is_py:
                    pass
                else:
                    raise Unsupported("ite over python objects")
            a, b = la, lb
        if a.ty != b.ty:
            if a.ty.kind == "none" and b.ty.kind != "py":
                a = self.coerce(a, TOpt(b.ty)); b = self.coerce(b, a.ty)
            elif b.ty.kind == "none" and a.ty.kind != "py":
                b = self.coerce(b, TOpt(a.ty)); a = self.coerce(a, b.ty)
            elif a.is_py:
                a = self.coerce(a, b.ty)
            elif b.is_py:
                b = self.coerce(b, a.ty)
            elif a.ty.kind == "opt" and a.ty.args[0] == b.ty:
                b = self.coerce(b, a.ty)
            elif b.ty.kind == "opt" and b.ty.args[0] == a.ty:
                a = self.coerce(a, b.ty)
            else:
                raise Unsupported(f"ite between {a.ty} and {b.ty}")
        if a.ty.kind == "none":
            return a
        return Val(a.ty, z3.If(c, a.t, b.t))

    @staticmethod
    def _safe_eq(x, y):
        try:
            return bool(x == y)
        except Exception:
            return False
