#!/bin/sh
# Build /verif/.venv offline: Python 3.12 (the interpreter the repository runs
# under) + solver wheels from /opt/veriftools/wheels + a .pth that exposes the
# repository's own third-party dependencies (/venv site-packages).  /repo/src is
# put first on sys.path by the checker itself at run time.
set -e
cd "$(dirname "$0")"
if [ -x .venv/bin/python ] && .venv/bin/python -c "import z3, cvc5, jsonschema, hypothesis" 2>/dev/null; then
    echo "venv ok"
    exit 0
fi
rm -rf .venv
/venv/bin/python -m venv .venv
PIP_NO_INDEX=1 .venv/bin/python -m pip install --quiet --no-index \
    --find-links /opt/veriftools/wheels \
    z3-solver cvc5 jsonschema hypothesis crosshair-tool deal icontract
SP=$(.venv/bin/python -c "import sysconfig; print(sysconfig.get_paths()['purelib'])")
echo "import site; site.addsitedir('/venv/lib/python3.12/site-packages')" > "$SP/zz_repo_deps.pth"
.venv/bin/python -c "import z3, cvc5, jsonschema; import sys; sys.path.insert(0, '/repo/src'); import reuse; print('venv built', z3.get_version_string())"
