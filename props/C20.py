"""C20 - copyright notices are built and merged without losing holders or years."""
import itertools
import re

from props.common import engine, verify_all, lemmas, assumed_contracts
from pyvc.driver import Bounded

LEVEL = "proof"
EXPLANATION = ("Contracts on the real bodies of make_copyright_line (raises exactly on a newline or an unknown prefix; a statement "
               "that already is a notice - in the sense of the statement's tag list, compared with the search languages of the "
               "three real compiled patterns for ALL strings - is returned verbatim; otherwise prefix [year] statement), "
               "_parse_copyright_year and get_year; lemma: every built line is a notice. The agreement of the captured groups "
               "(prefix / year / holder) and the merge function are exercised by bounded enumerations (labelled bounded).")

FUNCTIONS = ["reuse.copyright.make_copyright_line", "reuse.copyright._parse_copyright_year", "reuse.cli.annotate.get_year"]

# holder grammar of the property's quantifier: names, organisations with punctuation, e-mail and URL suffixes, non-ASCII
TOKENS = ["Jane", "Doe", "GmbH", "e.V.", "&", "Co.,", "<jane@example.com>", "<https://example.com/~j>", "Jérôme", "O'Neil",
          "(FSFE)", "1st", "Ltd.", "山田", "contributors", "A.", "-", "and"]
YEARS = [None, "2017", "2017-2019", "2017 - 2019", "1999 -2003"]


def holders(tier):
    n = 3 if tier == "thorough" else 2
    for k in range(1, n + 1):
        for combo in itertools.product(TOKENS, repeat=k):
            yield " ".join(combo)


def first_match(line):
    from reuse.extract import _COPYRIGHT_PATTERNS
    for pat in _COPYRIGHT_PATTERNS:
        m = pat.search(line)
        if m is not None:
            return m
    return None


def builder_reader(tier):
    """real make_copyright_line, then the real reader (extract_reuse_info and the first matching pattern's groups)"""
    from reuse.copyright import make_copyright_line, _COPYRIGHT_PREFIXES
    from reuse.extract import extract_reuse_info
    from reuse.cli.annotate import get_year
    failures, cases = [], 0
    years = YEARS + [get_year(("2020", "2018", "2019"), False), get_year(("2021",), False)]
    hs = list(holders(tier))
    for prefix_key, prefix in _COPYRIGHT_PREFIXES.items():
        for year in years:
            for h in hs:
                cases += 1
                line = make_copyright_line(h, year, prefix_key)
                want = f"{prefix} {year} {h}" if year is not None else f"{prefix} {h}"
                problem = None
                if line != want:
                    problem = f"built {line!r}, expected {want!r}"
                else:
                    m = first_match(line)
                    info = extract_reuse_info(line)
                    if m is None:
                        problem = "built line is not recognised by any copyright pattern"
                    elif info.copyright_lines != {line}:
                        problem = f"reader returns {sorted(info.copyright_lines)!r} instead of the single built line"
                    elif m.group("prefix") != prefix or m.group("year") != year or m.group("statement") != h:
                        problem = (f"captured prefix={m.group('prefix')!r} year={m.group('year')!r} "
                                   f"statement={m.group('statement')!r}")
                    elif make_copyright_line(line, "1980", "symbol") != line:
                        problem = "a built notice is not kept verbatim when given back to the builder"
                if problem:
                    failures.append({"prefix": prefix_key, "year": year, "holder": h, "problem": problem, "replayed": True})
                    if len(failures) > 10:
                        break
    return Bounded("builder-reader", f"10 prefixes x {len(years)} year forms x {len(hs)} holders (token sequences up to "
                   f"{3 if tier == 'thorough' else 2} of {len(TOKENS)} tokens)", cases, failures[:10],
                   "real make_copyright_line -> real _COPYRIGHT_PATTERNS groups and extract_reuse_info")


def parse_notice(line):
    m = first_match(line)
    if m is None:
        return None
    y = m.group("year")
    ys = []
    if y:
        ys = re.findall(r"\d{4}", y)
    return m.group("prefix"), ys, m.group("statement")


def merge_check(tier):
    """every set of up to 3 (quick) / 4 (thorough) notices over 2 holders x prefixes x years through the real merge"""
    from reuse.copyright import merge_copyright_lines, make_copyright_line
    hs = ["Jane Doe <jane@example.com>", "Example GmbH & Co., Ltd."]
    prefixes = ["spdx", "string-c", "spdx-symbol", "symbol"]
    years = [None, "2015", "2018", "2016-2017", "2019 - 2021"]
    notices = sorted({make_copyright_line(h, y, p) for h in hs for y in years for p in prefixes})
    size = 4 if tier == "thorough" else 3
    if tier != "thorough":
        notices = [n for i, n in enumerate(notices) if i % 2 == 0 or "2016" in n]
    failures, cases = [], 0
    for k in range(1, size + 1):
        for combo in itertools.combinations(notices, k):
            cases += 1
            given = set(combo)
            try:
                out = merge_copyright_lines(set(given))
            except Exception as e:  # noqa
                failures.append({"notices": sorted(given), "problem": f"{type(e).__name__}: {e}", "replayed": True})
                continue
            before = [parse_notice(n) for n in given]
            after = [parse_notice(n) for n in out]
            problem = None
            if any(a is None for a in after):
                problem = f"merged line not recognised: {sorted(out)!r}"
            else:
                hb, ha = {b[2] for b in before}, [a[2] for a in after]
                if set(ha) != hb:
                    problem = f"holders before {sorted(hb)!r}, after {sorted(set(ha))!r}"
                elif len(ha) != len(set(ha)):
                    problem = f"a holder has more than one line after merging: {sorted(out)!r}"
                else:
                    for _, ys, h in after:
                        stated = sorted(y for b in before if b[2] == h for y in b[1])
                        if stated and (not ys or min(ys) != stated[0] or max(ys) != stated[-1]):
                            problem = f"holder {h!r}: years stated {stated!r}, merged line has {ys!r}"
                        elif not stated and ys:
                            problem = f"holder {h!r}: no year stated, merged line has {ys!r}"
            if problem:
                failures.append({"notices": sorted(given), "merged": sorted(out), "problem": problem, "replayed": True})
                if len(failures) > 10:
                    break
    return Bounded("merge", f"all sets of up to {size} notices out of {len(notices)} (2 holders x prefixes x year forms)", cases,
                   failures[:10], "real merge_copyright_lines; holders and years parsed back with the real patterns")


def year_options():
    """--year / --exclude-year plumbing of the annotate command, against literal expectations"""
    import datetime
    import itertools as it
    from reuse.cli.annotate import get_year
    failures, cases = [], 0
    table = [((), True, None), (("2019",), True, None), ((), False, str(datetime.date.today().year)), (("2017",), False, "2017")]
    for ys in (("2016", "2020", "2018"), ("2021", "2015"), ("2018", "2018"), ("1999", "2003", "2001", "2002")):
        for perm in it.permutations(ys):
            table.append((perm, False, f"{min(ys)} - {max(ys)}"))
    for years, exclude, want in table:
        cases += 1
        got = get_year(years, exclude)
        if got != want:
            failures.append({"years": list(years), "exclude_year": exclude, "problem": f"get_year gives {got!r}, the range spanning every year given is {want!r}", "replayed": True})
    return Bounded("year-options", "every order of 4 multi-year option lists, single year, no year, --exclude-year", cases, failures[:8], "real get_year")


def run(ctx):
    import importlib
    importlib.import_module("contracts.copyright")
    e = engine(ctx)
    from pyvc.driver import generic_replay
    for q in FUNCTIONS:
        ctx.verify(e, q, replay=generic_replay(q))
    lemmas(ctx, e, "C20")
    assumed_contracts(ctx, e, "C20")
    ctx.bounded.append(year_options())
    ctx.bounded.append(builder_reader(ctx.tier))
    ctx.bounded.append(merge_check(ctx.tier))
    ctx.assume("Python's re is the calculus of pyvc.rx (categories enumerated from the running interpreter); code points <= U+2FFFF")
    ctx.assume("the captured groups of the three patterns (prefix / year / statement) and merge_copyright_lines are covered by the "
               "bounded enumerations only; holders starting with a four-digit token or ending in a comment terminator are outside "
               "the property's holder grammar")
    ctx.assume("datetime.date.today().year is an uninterpreted non-negative integer")
