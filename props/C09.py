"""C09 - annotate accumulates information and never drops any."""
from props.common import engine, verify_all, lemmas, assumed_contracts
from props import annot

LEVEL = "proof"
EXPLANATION = ("Contract on the real body of create_header (with ReuseInfo.union / copy inlined): the header text it returns is the "
               "writer's function of (old notices U requested notices [through the merge function with --merge-copyrights], old "
               "expressions U requested, old contributors U requested), and the reader finds exactly those notices and expressions in "
               "it. Histories of the real command are compared with a running model by the bounded sequence runs; holders and year "
               "spans under --merge-copyrights by those runs and by C20's merge enumeration.")
FUNCTIONS = ["reuse.header.create_header", "reuse.header._create_new_header",
             "reuse.header._find_first_spdx_comment"]     # the old header handed to create_header is the whole located block
MODULES = ("contracts.report", "contracts.cli", "contracts.annotate", "contracts.copyright", "contracts.header")


def run(ctx):
    e = engine(ctx, modules=MODULES)
    verify_all(ctx, e, FUNCTIONS)
    assumed_contracts(ctx, e, "C09")
    ctx.bounded.append(annot.accumulation(ctx.tier))
    from props.C20 import merge_check
    ctx.bounded.append(merge_check(ctx.tier))
    ctx.assume("the old header's information is what the reader (ghost function of the text) returns for the located block; that the "
               "block is located is C10 / C08")
    ctx.assume("merge_copyright_lines is a ghost function here; its holder and year preservation is the bounded merge check")
    ctx.assume("information outside the first header block or beyond the 4 KiB window is not re-read by annotate (it stays in the file)")
    ctx.assume("a header that has outgrown the reader's 4 KiB window is read only partly by lint (a limit of the tool, DESIGN 5): the "
               "long-header histories therefore compare what the same reader finds in the whole file")
