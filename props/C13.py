"""C13 - every lint output format and lint-file tell the same story as the exit status."""
import itertools
import json
import re
from pathlib import Path

from props.common import engine, verify_all, lemmas, assumed_contracts
from pyvc.driver import Bounded

LEVEL = "proof"
EXPLANATION = ("Contracts on the real bodies behind the exit statuses: ProjectReport.is_compliant and the lint callback (all "
               "four output branches exit with the same verdict), ProjectSubsetReport.generate / is_compliant / files_without_* "
               "and the lint-file callback (exit 1 iff one of the four per-file collections is non-empty, i.e. iff a line is "
               "printed). The agreement of the rendered texts (plain / lines / JSON, JSON counters, lint-file lines vs lint "
               "lines) is exercised by a bounded enumeration of synthetic reports through the real formatters.")

FUNCTIONS = [
    "reuse.report.ProjectReport.is_compliant", "reuse.cli.lint.lint",
    "reuse.report.ProjectSubsetReport.files_without_licenses", "reuse.report.ProjectSubsetReport.files_without_copyright",
    "reuse.report.ProjectSubsetReport.is_compliant", "reuse.report.ProjectSubsetReport.generate",
    "reuse.cli.lint_file.lint_file",
]

# prototypical per-file situations: (name, copyright?, licences in file, missing, bad)
FILES = [
    ("ok.py", "c", ["MIT"], [], []),
    ("no_both.py", "", [], [], []),
    ("no_c.py", "", ["MIT"], [], []),
    ("no_l.py", "c", [], [], []),
    ("missing.py", "c", ["0BSD"], ["0BSD"], []),
    ("bad space.py", "c", ["Foo", "MIT"], ["Foo"], ["Foo"]),
    ("two missing.py", "c", ["Apache-2.0", "Zlib"], ["Apache-2.0", "Zlib"], []),
]
LICENSES = [
    ({}, {}),
    ({"MIT": "LICENSES/MIT.txt"}, {}),
    ({"MIT": "LICENSES/MIT.txt", "GPL-2.0+": "LICENSES/GPL-2.0+.txt", "ISC": "LICENSES/ISC.txt"}, {}),
    ({"MIT": "LICENSES/MIT.txt", "Nonsense": "LICENSES/Nonsense.txt"}, {"EUPL-1.2": "LICENSES/EUPL-1.2"}),
]


def build_report(mask, lic_cfg, read_errors):
    from reuse.report import ProjectReport, FileReport
    from reuse._licenses import LICENSE_MAP, EXCEPTION_MAP
    lm = {**LICENSE_MAP, **EXCEPTION_MAP}
    r = ProjectReport()
    r.path = "/project"
    lics, lwe = LICENSES[lic_cfg]
    r.licenses = {k: Path(v) for k, v in {**lics, **lwe}.items()}
    r.licenses_without_extension = {k: Path(v) for k, v in lwe.items()}
    frs = []
    for bit, (name, c, lif, missing, bad) in enumerate(FILES):
        if not mask & (1 << bit):
            continue
        fr = FileReport(f"./{name}", name)
        fr.chk_sum = "0" * 40
        fr.copyright = "SPDX-FileCopyrightText: Jane" if c else ""
        fr.licenses_in_file = list(lif)
        fr.missing_licenses = {m for m in missing if m not in r.licenses}
        fr.bad_licenses = set(bad)
        frs.append(fr)
    r.file_reports = set(frs)
    for fr in frs:
        for m in fr.missing_licenses:
            r.missing_licenses.setdefault(m, set()).add(fr.path)
        for b in fr.bad_licenses:
            r.bad_licenses.setdefault(b, set()).add(fr.path)
    for name, path in r.licenses.items():
        if name not in lm:
            r.bad_licenses.setdefault(name, set()).add(path)
        elif lm[name]["isDeprecatedLicenseId"]:
            r.deprecated_licenses.add(name)
    r.read_errors = {Path(p) for p in read_errors}
    return r, frs


def story_from_lines(text, report):
    by_path = {str(v): k for k, v in report.licenses.items()}
    s = {k: set() for k in ("bad", "deprecated", "lwe", "unused", "missing", "read", "no_l", "no_c")}
    for line in text.splitlines():
        m = re.fullmatch(r"(.*): bad license (.*)", line)
        if m:
            s["bad"].add((m.group(2), m.group(1))); continue
        m = re.fullmatch(r"(.*): missing license (.*)", line)
        if m:
            s["missing"].add((m.group(2), m.group(1))); continue
        for key, suffix in (("deprecated", "deprecated license"), ("lwe", "license without file extension"), ("unused", "unused license")):
            m = re.fullmatch(rf"(.*): {suffix}", line)
            if m:
                s[key].add(by_path.get(m.group(1), "?" + m.group(1))); break
        else:
            for key, suffix in (("read", "read error"), ("no_l", "no license identifier"), ("no_c", "no copyright notice")):
                m = re.fullmatch(rf"(.*): {suffix}", line)
                if m:
                    s[key].add(m.group(1)); break
            else:
                raise ValueError(f"unparsed --lines line: {line!r}")
    return s


def story_from_plain(text):
    s = {k: set() for k in ("bad", "deprecated", "lwe", "unused", "missing", "read", "no_l", "no_c")}
    section, sub, cur = None, None, None
    for line in text.splitlines():
        if line.startswith("# "):
            section, sub, cur = line[2:], None, None
            continue
        m = re.fullmatch(r"'(.*)' found in:", line)
        if m:
            cur = m.group(1); continue
        if line.startswith("The following files have no copyright and licensing"):
            sub = "both"; continue
        if line.startswith("The following files have no copyright information"):
            sub = "c"; continue
        if line.startswith("The following files have no licensing information"):
            sub = "l"; continue
        if line.startswith("* ") and section not in ("SUMMARY", "RECOMMENDATIONS"):
            item = line[2:]
            if section == "BAD LICENSES":
                s["bad"].add((cur, item))
            elif section == "MISSING LICENSES":
                s["missing"].add((cur, item))
            elif section == "DEPRECATED LICENSES":
                s["deprecated"].add(item)
            elif section == "LICENSES WITHOUT FILE EXTENSION":
                s["lwe"].add(item)
            elif section == "UNUSED LICENSES":
                s["unused"].add(item)
            elif section == "READ ERRORS":
                s["read"].add(item)
            elif section == "MISSING COPYRIGHT AND LICENSING INFORMATION":
                if sub in ("both", "c"):
                    s["no_c"].add(item)
                if sub in ("both", "l"):
                    s["no_l"].add(item)
    verdict = "Congratulations" in text
    return s, verdict


def story_from_json(text):
    d = json.loads(text)
    n = d["non_compliant"]
    s = {
        "bad": {(l, p) for l, ps in n["bad_licenses"].items() for p in ps},
        "missing": {(l, p) for l, ps in n["missing_licenses"].items() for p in ps},
        "deprecated": set(n["deprecated_licenses"]), "lwe": set(n["licenses_without_extension"]),
        "unused": set(n["unused_licenses"]), "read": set(n["read_errors"]),
        "no_l": set(n["missing_licensing_info"]), "no_c": set(n["missing_copyright_info"]),
    }
    return s, d


def formatter_agreement(tier):
    from reuse.lint import format_plain, format_lines, format_json, format_lines_subset
    from reuse.report import ProjectSubsetReport
    failures, cases = [], 0
    masks = range(1 << len(FILES)) if tier == "thorough" else [m for m in range(1 << len(FILES)) if bin(m).count("1") <= 3 or m == (1 << len(FILES)) - 1]
    for mask, lic_cfg, errs in itertools.product(masks, range(len(LICENSES)), ([], ["unreadable.bin"])):
        report, frs = build_report(mask, lic_cfg, errs)
        cases += 1
        case = {"files": [FILES[b][0] for b in range(len(FILES)) if mask & (1 << b)], "licenses": lic_cfg, "read_errors": errs}
        try:
            compliant = report.is_compliant
            lines = story_from_lines(format_lines(report), report)
            plain, plain_verdict = story_from_plain(format_plain(report))
            js, d = story_from_json(format_json(report))
        except Exception as e:  # a formatter crash is a failure of the property's premise
            failures.append(dict(case, error=repr(e)))
            continue
        truth = {"bad": {(l, str(p)) for l, ps in report.bad_licenses.items() for p in ps},
                 "missing": {(l, str(p)) for l, ps in report.missing_licenses.items() for p in ps},
                 "deprecated": set(report.deprecated_licenses), "lwe": set(report.licenses_without_extension),
                 "unused": set(report.unused_licenses), "read": {str(p) for p in report.read_errors},
                 "no_l": {str(p) for p in report.files_without_licenses}, "no_c": {str(p) for p in report.files_without_copyright}}
        any_problem = any(truth.values())
        if compliant != (not any_problem):
            failures.append(dict(case, what="is_compliant disagrees with the eight collections", compliant=compliant))
        empty = {k: set() for k in truth}
        expect = truth if not compliant else empty
        for fmt, story in (("lines", lines), ("plain", plain)):
            for k in truth:
                if story[k] != expect[k]:
                    failures.append(dict(case, what=f"--{fmt} category {k}", got=sorted(map(str, story[k])), expected=sorted(map(str, expect[k]))))
        for k in truth:
            if js[k] != truth[k]:
                failures.append(dict(case, what=f"--json category {k}", got=sorted(map(str, js[k])), expected=sorted(map(str, truth[k]))))
        if plain_verdict != compliant or d["summary"]["compliant"] != compliant:
            failures.append(dict(case, what="verdict sentence / json compliant flag", plain=plain_verdict, json=d["summary"]["compliant"], is_compliant=compliant))
        sm = d["summary"]
        if sm["files_total"] != len(d["files"]) or sm["files_with_copyright_info"] != len(d["files"]) - len(js["no_c"]) \
                or sm["files_with_licensing_info"] != len(d["files"]) - len(js["no_l"]) or set(sm["used_licenses"]) != set(report.used_licenses):
            failures.append(dict(case, what="json summary counters vs the json's own lists", summary=sm))
        # lint-file on every non-empty subset of the files (<= 2 here): same per-file lines as lint
        for k in (1, 2):
            for sub in itertools.combinations(frs, k):
                sr = ProjectSubsetReport()
                sr.path = report.path
                sr.file_reports = set(sub)
                for fr in sub:
                    for m in fr.missing_licenses:
                        sr.missing_licenses.setdefault(m, set()).add(fr.path)
                got = story_from_lines(format_lines_subset(sr), report)
                names = {str(fr.path) for fr in sub}
                want = {"missing": {(l, p) for (l, p) in truth["missing"] if p in names}, "no_l": truth["no_l"] & names,
                        "no_c": truth["no_c"] & names, "read": set()}
                cases += 1
                for cat in want:
                    if got[cat] != want[cat]:
                        failures.append(dict(case, what=f"lint-file category {cat} for {sorted(names)}", got=sorted(map(str, got[cat])), expected=sorted(map(str, want[cat]))))
                if sr.is_compliant != (not any(want.values())):
                    failures.append(dict(case, what=f"lint-file verdict for {sorted(names)}", is_compliant=sr.is_compliant))
        if len(failures) > 12:
            break
    return Bounded("formatter-agreement", f"synthetic reports: {len(list(masks))} subsets of {len(FILES)} prototypical files x {len(LICENSES)} LICENSES/ "
                   "configurations x read errors on/off; lint-file on every 1- and 2-file subset", cases, failures[:12],
                   "real format_plain / format_lines / format_json / format_lines_subset parsed back and compared per category")


def cli_agreement(tier):
    """the real `reuse lint --lines` and `reuse lint-file --lines` on real trees, under several spellings of the root"""
    import os, shutil, tempfile, warnings
    from click.testing import CliRunner
    from reuse.cli.main import main
    os.environ["_SUPPRESS_DEP5_WARNING"] = "1"
    warnings.simplefilter("ignore")
    H = "# SPDX-FileCopyrightText: Jane\n# SPDX-License-Identifier: MIT\n"
    files = {"src/ok.py": H, "src/no_licence.py": "# SPDX-FileCopyrightText: Jane\n", "src/deep/no_both.py": "x = 1\n",
             "missing.py": "# SPDX-FileCopyrightText: Jane\n# SPDX-License-Identifier: 0BSD\n", "with space.py": "y = 2\n",
             "LICENSES/MIT.txt": "m", "subprojects/vendored/foo.c": "int x;\n", ".reuse/notes.txt": "n\n"}
    top = tempfile.mkdtemp(prefix="c13_")
    root = os.path.join(top, "proj")
    failures, cases = [], 0
    cwd0 = os.getcwd()
    try:
        for rel, data in files.items():
            p = os.path.join(root, rel)
            os.makedirs(os.path.dirname(p), exist_ok=True)
            with open(p, "w") as fp:
                fp.write(data)
        os.makedirs(os.path.join(top, "sibling"))
        os.symlink(root, os.path.join(top, "link"))
        # files inside directories that lint excludes as a whole (LICENSES/, Meson subprojects, .reuse/) are requested too:
        # lint-file must stay silent about them, exactly as lint is
        targets = list(files)
        spellings = [("absolute root", top, root), ("relative root with ..", os.path.join(top, "sibling"), "../proj"),
                     ("root through a symlink", top, os.path.join(top, "link")), ("root '.'", root, "."),
                     ("root '..' from a subdirectory", os.path.join(root, "src"), "..")]

        def per_file(text, rootspelled, cwd):
            out = {}
            for line in text.splitlines():
                path, _, msg = line.rpartition(": ")
                if msg.startswith(("missing license", "no license identifier", "no copyright notice")):
                    real = os.path.realpath(path if os.path.isabs(path) else os.path.join(cwd, path))
                    out.setdefault(os.path.relpath(real, os.path.realpath(root)), set()).add(msg)
            return out
        for label, cwd, spelled in spellings:
            os.chdir(cwd)
            r = CliRunner().invoke(main, ["--root", spelled, "--no-multiprocessing", "lint", "--lines"])
            lint = per_file(r.stdout, spelled, cwd)
            for k in (1, 2, 5, len(targets)):
                import itertools
                for sub in itertools.combinations(targets, k):
                    cases += 1
                    args = [os.path.join(spelled, t) for t in sub]
                    r2 = CliRunner().invoke(main, ["--root", spelled, "--no-multiprocessing", "lint-file", "--lines"] + args)
                    got = per_file(r2.stdout, spelled, cwd)
                    want = {f: v for f, v in lint.items() if f in sub}
                    crashed = r2.exception is not None and not isinstance(r2.exception, SystemExit)
                    if crashed or got != want or r2.exit_code != (1 if want else 0):
                        failures.append({"root": label, "files": list(sub), "replayed": True,
                                         "problem": f"lint-file says {sorted((f, sorted(v)) for f, v in got.items())} exit {r2.exit_code}, lint says "
                                                    f"{sorted((f, sorted(v)) for f, v in want.items())} for the same files"[:600]})
                if len(failures) > 8:
                    break
    finally:
        os.chdir(cwd0)
        shutil.rmtree(top, ignore_errors=True)
    return Bounded("cli-agreement", "one tree (5 source files: compliant, no licence, nothing, missing licence text, name with a space; 3 files inside wholly excluded directories) x 5 root "
                   "spellings (absolute, relative with '..', through a symlink, '.', '..' from a subdirectory) x every 1-, 2-, 5- and 8-file "
                   "subset: per-file lines and exit status of `lint-file` against `lint`", cases, failures[:8], "real CLI through click's CliRunner")


def run(ctx):
    e = engine(ctx)
    verify_all(ctx, e, FUNCTIONS)
    lemmas(ctx, e, "C13")
    assumed_contracts(ctx, e, "C13")
    ctx.bounded.append(formatter_agreement(ctx.tier))
    ctx.bounded.append(cli_agreement(ctx.tier))
    ctx.assume("json.dumps serialises what to_dict_lint returns; click.echo prints its argument")
    ctx.assume("the rendered texts of the four formatters are compared by the bounded check only (their loops are not under contract)")
    ctx.assume("lint-file path handling (resolve(), relative/absolute spellings) is the subset clause of is_path_ignored (C03)")
