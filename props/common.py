"""Shared set-up for property modules."""
import importlib


def engine(ctx, modules=("contracts.report", "contracts.cli")):
    for m in modules:
        importlib.import_module(m)
    e = ctx.new_engine()
    import contracts.domain as d
    d.declare(e)
    d.declare_io(e)
    d.declare_licensing(e)
    d.declare_cli(e)
    d.declare_paths(e)
    d.declare_project(e); d.declare_toml(e); d.declare_config(e); d.declare_effects(e); d.declare_annotate(e); d.declare_copyright(e); d.declare_header(e); d.declare_header_sections(e)
    return e


def verify_all(ctx, e, qualnames):
    for q in qualnames:
        ctx.verify(e, q)


def lemmas(ctx, e, prop, only=None):
    from pyvc.api import LEMMAS
    for lem in LEMMAS:
        if prop in lem.serves and (only is None or lem.name in only):
            ctx.lemma(e, lem)


def assumed_contracts(ctx, e, prop):
    from pyvc.api import CONTRACTS
    for q, c in CONTRACTS.items():
        if c.assumed and prop in c.serves:
            ctx.trust(f"assumed contract of {q}: {c.why}")
