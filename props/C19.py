"""C19 - download never overwrites and supplies exactly the missing licences."""
import itertools
import os
import shutil
import tempfile

from props.common import engine, verify_all, assumed_contracts
from pyvc.driver import Bounded, VERIF

LEVEL = "proof"
EXPLANATION = ("Effect contracts (ghost sets of written / created-directory / removed paths) on the real bodies: put_license_in_file "
               "writes exactly its destination and only when it did not exist, writes nothing at all when it fails, and never reaches "
               "the network for LicenseRef-; the download callback's exit status is 0 only if every requested licence (ID+ as ID) was "
               "written, nothing is removed. A bounded run of the real command with a stubbed network covers --all, existing files, "
               "LicenseRef sources and failures in the middle of a batch.")

FUNCTIONS = ["reuse._util._strip_plus_from_identifier", "reuse.download.put_license_in_file", "reuse.cli.download.download"]


def snapshot(root):
    out = {}
    for dp, dn, fn in os.walk(root):
        for f in fn:
            p = os.path.join(dp, f)
            with open(p, "rb") as fp:
                out[os.path.relpath(p, root)] = fp.read()
    return out


def stubbed_download(tier):
    from urllib.error import URLError
    from click.testing import CliRunner
    import reuse.download as rd
    from reuse.cli.main import main
    os.makedirs(os.path.join(VERIF, ".scratch"), exist_ok=True)
    failures, runs = [], 0
    real = rd.download_license
    cwd = os.getcwd()
    header = "# SPDX-FileCopyrightText: Jane\n# SPDX-License-Identifier: {}\n"
    # (GPL-3.0 and GPL-2.0+ are deprecated SPDX identifiers: still on the list, still downloadable)
    batches = [["MIT"], ["MIT", "0BSD"], ["MIT+", "0BSD", "ISC"], ["0BSD", "MIT", "ISC", "Zlib"], ["GPL-3.0", "MIT"], ["GPL-2.0+"]]
    try:
        for batch, fail_at, existing in itertools.product(batches, [None, 0, 1, 2], [None, "MIT", "0BSD"]):
            if fail_at is not None and fail_at >= len(batch):
                continue
            for mode in ("args", "all"):
                d = tempfile.mkdtemp(dir=os.path.join(VERIF, ".scratch"))
                try:
                    for k, lic in enumerate(batch):
                        with open(os.path.join(d, f"f{k}.py"), "w") as fp:
                            fp.write(header.format(lic))
                    if existing:
                        os.makedirs(os.path.join(d, "LICENSES"))
                        with open(os.path.join(d, "LICENSES", existing + ".txt"), "w") as fp:
                            fp.write("ORIGINAL")
                    calls = []

                    def fake(identifier, _calls=calls, _fail=fail_at):
                        _calls.append(identifier)
                        if _fail is not None and len(_calls) - 1 == _fail:
                            raise URLError("stubbed failure")
                        return f"TEXT OF {identifier}\n"
                    rd.download_license = fake
                    before = snapshot(d)
                    os.chdir(d)
                    try:
                        args = ["--root", d, "download"] + (["--all"] if mode == "all" else batch)
                        r = CliRunner().invoke(main, args)
                    finally:
                        os.chdir(cwd)
                    runs += 1
                    after = snapshot(d)
                    case = {"batch": batch, "fail_at_request": fail_at, "existing": existing, "mode": mode, "exit": r.exit_code}
                    if r.exception is not None and not isinstance(r.exception, SystemExit):
                        failures.append(dict(case, problem=f"crash {r.exception!r}"[:200]))
                        continue
                    for rel, data in before.items():
                        if after.get(rel) != data:
                            failures.append(dict(case, problem=f"existing file {rel} altered or removed"))
                    wanted = sorted({l.rstrip("+") for l in batch})
                    if mode == "all" and existing:
                        wanted = [w for w in wanted if w != existing]
                    new = sorted(set(after) - set(before))
                    refused = [w for w in wanted if existing == w and mode == "args"]
                    failed_ids = [c for k, c in enumerate(calls) if fail_at is not None and k == fail_at]
                    for rel in new:
                        ident = os.path.basename(rel)[:-4]
                        if not (rel.startswith("LICENSES" + os.sep) and rel.endswith(".txt") and ident in wanted):
                            failures.append(dict(case, problem=f"unexpected new file {rel}"))
                        elif after[rel] != f"TEXT OF {ident}\n".encode():
                            failures.append(dict(case, problem=f"partial or wrong content in {rel}"))
                    for ident in failed_ids:
                        if os.path.join("LICENSES", ident + ".txt") in new:
                            failures.append(dict(case, problem=f"file left behind for failed {ident}"))
                    if r.exit_code == 0:
                        for w in wanted:
                            if w != existing and os.path.join("LICENSES", w + ".txt") not in after:
                                failures.append(dict(case, problem=f"exit status 0 but the requested licence {w} is not in LICENSES/"))
                    any_failure = bool(failed_ids) or bool(refused)
                    if (r.exit_code != 0) != any_failure:
                        failures.append(dict(case, problem=f"exit status {r.exit_code} but failures={failed_ids + refused}"))
                    if any("+" in os.path.basename(rel) for rel in new):
                        failures.append(dict(case, problem="'ID+' not treated as 'ID'"))
                    if mode == "all" and r.exit_code == 0:
                        r2 = CliRunner().invoke(main, ["--root", d, "--no-multiprocessing", "lint", "-j"])
                        import json
                        if json.loads(r2.output)["non_compliant"]["missing_licenses"]:
                            failures.append(dict(case, problem="lint still reports missing licences after a successful download --all"))
                finally:
                    shutil.rmtree(d, ignore_errors=True)
        # LicenseRef-: never the network
        for source, existing in [(s_, False) for s_ in (None, "file", "dir", "dir-missing")] + [(s_, True) for s_ in (None, "file", "dir")]:
            d = tempfile.mkdtemp(dir=os.path.join(VERIF, ".scratch"))
            try:
                calls = []
                if existing:      # the target is already there: it must be kept as it is, and the command must say so
                    os.makedirs(os.path.join(d, "LICENSES"))
                    with open(os.path.join(d, "LICENSES", "LicenseRef-mine.txt"), "w") as fp:
                        fp.write("OLD TEXT")

                def fake2(identifier, _calls=calls):
                    _calls.append(identifier)
                    raise URLError("network must not be used")
                rd.download_license = fake2
                args = ["--root", d, "download", "LicenseRef-mine"]
                if source == "file":
                    with open(os.path.join(d, "src.txt"), "w") as fp:
                        fp.write("MINE")
                    args = ["--root", d, "download", "--source", os.path.join(d, "src.txt"), "LicenseRef-mine"]
                elif source in ("dir", "dir-missing"):
                    os.makedirs(os.path.join(d, "srcdir"))
                    if source == "dir":
                        with open(os.path.join(d, "srcdir", "LicenseRef-mine.txt"), "w") as fp:
                            fp.write("MINE")
                    args = ["--root", d, "download", "--source", os.path.join(d, "srcdir"), "LicenseRef-mine"]
                os.chdir(d)
                try:
                    r = CliRunner().invoke(main, args)
                finally:
                    os.chdir(cwd)
                runs += 1
                target = os.path.join(d, "LICENSES", "LicenseRef-mine.txt")
                case = {"licenseref_source": source, "target_exists": existing, "exit": r.exit_code, "replayed": True}
                if calls:
                    failures.append(dict(case, problem="network used for a LicenseRef- identifier"))
                if existing:
                    if open(target).read() != "OLD TEXT":
                        failures.append(dict(case, problem="an existing LicenseRef- licence file was overwritten"))
                    elif r.exit_code == 0:
                        failures.append(dict(case, problem="existing target but exit status 0"))
                elif source == "dir-missing":
                    if r.exit_code == 0 or os.path.exists(target):
                        failures.append(dict(case, problem="missing source not reported / file left behind"))
                elif r.exit_code != 0 or not os.path.exists(target):
                    failures.append(dict(case, problem="LicenseRef- licence not created locally"))
                elif source in ("file", "dir") and open(target).read() != "MINE":
                    failures.append(dict(case, problem="LicenseRef- text not copied"))
            finally:
                shutil.rmtree(d, ignore_errors=True)
    finally:
        rd.download_license = real
    return Bounded("stubbed-download", "batches of 1-4 identifiers x failing request position x pre-existing target x {arguments, --all}; "
                   "LicenseRef- with file / directory / missing source; network replaced by a stub", runs, failures[:12],
                   "real command in-process (click CliRunner), tree snapshot before/after")


def run(ctx):
    e = engine(ctx, modules=("contracts.report", "contracts.cli", "contracts.download"))
    verify_all(ctx, e, FUNCTIONS)
    assumed_contracts(ctx, e, "C19")
    ctx.bounded.append(stubbed_download(ctx.tier))
    ctx.trust("urllib (download_license raises URLError or returns the text), shutil.copyfile writes only its destination, Path.touch/mkdir/open effects")
    ctx.assume("single process: nobody creates the destination between exists() and open('w'); writes inside fp.write are atomic")
    ctx.weakest_pre.append("identifiers without path separators (an SPDX identifier given by the user such as 'a/b' creates LICENSES/a/)")
