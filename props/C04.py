"""C04 - per-file sources and precedence follow the specification."""
from props.common import engine, verify_all, lemmas, assumed_contracts

LEVEL = "proof"
EXPLANATION = ("Contracts on the real bodies: _determine_license_path (.license shadows the file), Project.reuse_info_of against "
               "a specification written from the statement (override: exactly the override, aggregate and closest tables; aggregate adds; closest supplies what the file lacks) "
               "stated pointwise for an arbitrary (value, source, source-type) triple, ReuseTOML.find_annotations_item (last "
               "match wins), ReuseTOML.reuse_info_of (reported under the table's precedence, source REUSE.toml) and "
               "NestedReuseTOML.reuse_info_of (no KeyError/IndexError/ValueError; the CLOSEST clean-up keeps per kind of "
               "information the nearest provider).")

FUNCTIONS = [
    "reuse._util._determine_license_path",
    "reuse.project.Project.reuse_info_of",
    "reuse.global_licensing.ReuseTOML.find_annotations_item",
    "reuse.global_licensing.ReuseTOML.reuse_info_of",
    "reuse.global_licensing.NestedReuseTOML.reuse_info_of",
]


def nested_chains(tier):
    """chains of nested REUSE.toml files (directory names that sort before / after 'REUSE.toml'), every precedence pair, a file
    with / without own information: the attribution through the real Project.reuse_info_of against the statement"""
    import itertools, os, shutil, tempfile
    from pathlib import Path
    from pyvc.driver import Bounded, VERIF
    from reuse.project import Project
    os.makedirs(os.path.join(VERIF, ".scratch"), exist_ok=True)
    failures, cases = [], 0
    dirs = ["src", "Documentation", "3rdparty", "Lib/vendor"] if tier == "thorough" else ["src", "Documentation", "3rdparty"]
    precs = ["closest", "aggregate", "override"]
    own_kinds = {"none": "data\n", "both": "SPDX-FileCopyrightText: Own\nSPDX-License-Identifier: ISC\n", "copyright": "SPDX-FileCopyrightText: Own\n"}

    def table(prec, who, lic):
        return (f'version = 1\n[[annotations]]\npath = "**"\nprecedence = "{prec}"\nSPDX-FileCopyrightText = "{who}"\n'
                f'SPDX-License-Identifier = "{lic}"\n')
    for d, p_out, p_in, own in itertools.product(dirs, precs, precs, own_kinds):
        cases += 1
        root = tempfile.mkdtemp(dir=os.path.join(VERIF, ".scratch"))
        try:
            os.makedirs(os.path.join(root, d))
            with open(os.path.join(root, "REUSE.toml"), "w") as fp:
                fp.write(table(p_out, "Outer", "MIT"))
            with open(os.path.join(root, d, "REUSE.toml"), "w") as fp:
                fp.write(table(p_in, "Inner", "0BSD"))
            with open(os.path.join(root, d, "f.txt"), "w") as fp:
                fp.write(own_kinds[own])
            infos = Project.from_directory(Path(root)).reuse_info_of(Path(root) / d / "f.txt")
            got_c = {(l, i.source_path) for i in infos for l in i.copyright_lines}
            got_l = {(str(e), i.source_path) for i in infos for e in i.spdx_expressions}
            O, I, F = "REUSE.toml", f"{d}/REUSE.toml", f"{d}/f.txt"
            own_c = {("SPDX-FileCopyrightText: Own", F)} if own in ("both", "copyright") else set()
            own_l = {("ISC", F)} if own == "both" else set()
            want_c, want_l = set(), set()
            if p_out == "override":                       # the outermost override wins and hides deeper REUSE.toml files
                want_c, want_l = {("Outer", O)}, {("MIT", O)}
            else:
                read_file = p_in != "override"            # an override makes REUSE.toml the only source
                if read_file:
                    want_c |= own_c
                    want_l |= own_l
                if p_in in ("override", "aggregate"):
                    want_c.add(("Inner", I)); want_l.add(("0BSD", I))
                if p_out == "aggregate":
                    want_c.add(("Outer", O)); want_l.add(("MIT", O))
                # closest: the nearest REUSE.toml that provides it, for whatever the (read) file lacks
                has_c = read_file and bool(own_c)
                has_l = read_file and bool(own_l)
                nearest = (("Inner", I), ("0BSD", I)) if p_in == "closest" else ((("Outer", O), ("MIT", O)) if p_out == "closest" else None)
                if nearest is not None:
                    if not has_c:
                        want_c.add(nearest[0])
                    if not has_l:
                        want_l.add(nearest[1])
            if (got_c, got_l) != (want_c, want_l):
                failures.append({"directory": d, "outer": p_out, "inner": p_in, "file_declares": own, "replayed": True,
                                 "problem": f"attributed {sorted(got_c)} / {sorted(got_l)}, the statement gives {sorted(want_c)} / {sorted(want_l)}"})
        finally:
            shutil.rmtree(root, ignore_errors=True)
    return Bounded("nested-chains", f"{len(dirs)} directory names (sorting before and after 'REUSE.toml') x 3 x 3 precedence pairs of an outer and an "
                   "inner REUSE.toml x 3 kinds of own information", cases, failures[:10], "real Project.reuse_info_of on real trees")


def run(ctx):
    e = engine(ctx, modules=("contracts.report", "contracts.cli", "contracts.project", "contracts.toml"))
    verify_all(ctx, e, FUNCTIONS)
    lemmas(ctx, e, "C04")
    assumed_contracts(ctx, e, "C04")
    ctx.bounded.append(nested_chains(ctx.tier))
    ctx.assume("what a file itself declares (reuse_info_of_file) is C02's obligation; binary detection (is_binary) is an arbitrary predicate")
    ctx.assume("NestedReuseTOML._find_relevant_tomls_and_items returns the ancestor REUSE.toml files outermost-first with their last "
               "matching table (sorting by directory.parts and pathlib's lexical relations are assumed)")
    ctx.assume("the walk loop of NestedReuseTOML.reuse_info_of (stop at the first override, aggregate kept) carries only the "
               "absence-of-exceptions obligations; its list contents are characterised for the CLOSEST clean-up only")
    ctx.assume("ReuseDep5.reuse_info_of (python-debian objects) is not under contract")
    ctx.trust("AnnotationsItem.matches is uninterpreted here (its language is C05's obligation)")
