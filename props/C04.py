"""C04 - per-file sources and precedence follow the specification."""
from props.common import engine, verify_all, lemmas, assumed_contracts

LEVEL = "proof"
EXPLANATION = ("Contracts on the real bodies: _determine_license_path (.license shadows the file), Project.reuse_info_of against "
               "a specification written from the statement (override sandwich; aggregate; closest supplies what the file lacks) "
               "stated pointwise for an arbitrary (value, source, source-type) triple, ReuseTOML.find_annotations_item (last "
               "match wins), ReuseTOML.reuse_info_of (reported under the table's precedence, source REUSE.toml) and "
               "NestedReuseTOML.reuse_info_of (no KeyError/IndexError/ValueError; the CLOSEST clean-up keeps per kind of "
               "information the nearest provider).")

FUNCTIONS = [
    "reuse._util._determine_license_path",
    "reuse.project.Project.reuse_info_of",
    "reuse.global_licensing.ReuseTOML.find_annotations_item",
    "reuse.global_licensing.ReuseTOML.reuse_info_of",
    "reuse.global_licensing.NestedReuseTOML.reuse_info_of",
]


def run(ctx):
    e = engine(ctx, modules=("contracts.report", "contracts.cli", "contracts.project", "contracts.toml"))
    verify_all(ctx, e, FUNCTIONS)
    lemmas(ctx, e, "C04")
    assumed_contracts(ctx, e, "C04")
    ctx.assume("what a file itself declares (reuse_info_of_file) is C02's obligation; binary detection (is_binary) is an arbitrary predicate")
    ctx.assume("NestedReuseTOML._find_relevant_tomls_and_items returns the ancestor REUSE.toml files outermost-first with their last "
               "matching table (sorting by directory.parts and pathlib's lexical relations are assumed)")
    ctx.assume("the walk loop of NestedReuseTOML.reuse_info_of (stop at the first override, aggregate kept) carries only the "
               "absence-of-exceptions obligations; its list contents are characterised for the CLOSEST clean-up only")
    ctx.assume("ReuseDep5.reuse_info_of (python-debian objects) is not under contract")
    ctx.trust("AnnotationsItem.matches is uninterpreted here (its language is C05's obligation)")
