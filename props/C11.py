"""C11 - a failed annotation leaves the tree as it was and shows in the exit status."""
from props.common import engine, verify_all, assumed_contracts

LEVEL = "proof"
EXPLANATION = ("Effect contracts (ghost sets of written / removed paths, ghost set of processed files) on the real bodies of "
               "add_header_to_file (a failed header leaves FILE and FILE.license unwritten; only those two may ever be written) "
               "and of the annotate callback (every file of the invocation is processed whatever happened to the others, exit "
               "status 0 or 1, usage errors before any effect).")

FUNCTIONS = ["reuse._annotate.add_header_to_file", "reuse.cli.annotate.all_paths", "reuse.cli.annotate.annotate",
             "reuse.cli.annotate.verify_paths_line_handling", "reuse.cli.annotate.verify_paths_comment_style"]


def failing_subsets(tier):
    """invocations over several files of which some fail for an anticipated reason, in every position; tree compared"""
    import itertools
    from pyvc.driver import Bounded
    from props.annot import Sandbox, TEMPLATES
    failures, cases = [], 0
    body = "zz BODY1\n"
    scenarios = [
        # (label, files, extra args, holder, expected exit, names that must stay untouched, names that must change)
        ("holder contains the terminator of one file's style", {"ok1.py": body, "bad.html": body, "ok2.py": body}, [], "Jane --> Doe", 1, ["bad.html"], ["ok1.py", "ok2.py"]),
        ("holder contains the terminator, two failing files", {"bad1.html": body, "ok.py": body, "bad2.xml": body}, [], "Jane --> Doe", 1, ["bad1.html", "bad2.xml"], ["ok.py"]),
        ("holder that the reader cannot return (ends in a comment terminator)", {"main.js": body, "util.py": body}, [], "Example Corp */", 1, ["main.js", "util.py"], []),
        ("information-dropping template", {"a.py": body, "b.c": body, **TEMPLATES}, ["--template", "nolicence"], "Jane", 1, ["a.py", "b.c"], []),
        ("unsupported --single-line for one file", {"a.py": body, "page.css": body, "b.py": body}, ["--single-line"], "Jane", 2, ["a.py", "page.css", "b.py"], []),
        ("unsupported --multi-line for one file", {"a.c": body, "script.py": body, "b.c": body}, ["--multi-line"], "Jane", 2, ["a.c", "script.py", "b.c"], []),
        ("unrecognised extension, no fallback", {"a.py": body, "data.unknownext": body, "b.py": body}, [], "Jane", 2, ["a.py", "data.unknownext", "b.py"], []),
        ("mutually exclusive options", {"a.py": body, "b.py": body}, ["--single-line", "--multi-line"], "Jane", 2, ["a.py", "b.py"], []),
        ("mutually exclusive year options", {"a.py": body}, ["--year", "2000", "--exclude-year"], "Jane", 2, ["a.py"], []),
        ("unrecognised extension with --skip-unrecognised", {"a.py": body, "data.unknownext": body}, ["--skip-unrecognised"], "Jane", 0, ["data.unknownext"], ["a.py"]),
    ]
    for label, files, extra, holder, want_exit, untouched, changed in scenarios:
        targets = [f for f in files if not f.startswith(".reuse/")]
        orders = list(itertools.permutations(targets)) if tier == "thorough" or len(targets) <= 3 else [tuple(targets)]
        for order in orders:
            for seed in (["0", "1", "3"] if tier == "thorough" else ["0"]):
                cases += 1
                with Sandbox(files) as sb:
                    before = sb.snapshot()
                    code, out, crash = sb.annotate(extra + ["--copyright", holder, "--license", "MIT"] + list(order))
                    after = sb.snapshot()
                    case = {"scenario": label, "order": list(order), "args": extra, "holder": holder}
                    problem = None
                    if crash:
                        problem = f"crash: {crash}"
                    elif code != want_exit:
                        problem = f"exit status {code}, expected {want_exit}: {out[-200:]}"
                    else:
                        created = sorted(set(after) - set(before))
                        if created:
                            problem = f"files created: {created}"
                        for f in untouched:
                            if after.get(f) != before.get(f):
                                problem = f"{f} was modified although it {'could not be annotated' if want_exit == 1 else 'must not be touched'}"
                        for f in changed:
                            if after.get(f) == before.get(f):
                                problem = f"{f} was not processed although another file of the invocation failed"
                    if problem:
                        failures.append(dict(case, problem=problem, replayed=True))
    return Bounded("failing-subsets", f"{len(scenarios)} invocations over 1-3 files with a failing subset (terminator in the holder, information-dropping "
                   "template, unsupported --single-line / --multi-line, unrecognised extension, exclusive options) in every argument order; "
                   "whole tree compared before and after", cases, failures[:10], "real `reuse annotate` through click's CliRunner")


def run(ctx):
    e = engine(ctx, modules=("contracts.report", "contracts.cli", "contracts.annotate", "contracts.annotate_usage"))
    verify_all(ctx, e, FUNCTIONS)
    assumed_contracts(ctx, e, "C11")
    ctx.bounded.append(failing_subsets(ctx.tier))
    ctx.assume("header construction (find_and_replace_header / add_new_header) fails only with CommentCreateError or "
               "MissingReuseInfoError and has no file-system effect (C07-C10)")
    ctx.assume("click runs MutexOption.handle_parse_result for every parameter before the callback (usage errors of option parsing)")
    ctx.assume("the exit status is 1 exactly when some file failed: proved only as 'exit status is 0 or 1 and min(result, 1)'; the "
               "per-file result is the helper's return value")
    ctx.trust("Path.touch / open(mode) / write effects as modelled (DESIGN 3.5)")
