"""C11 - a failed annotation leaves the tree as it was and shows in the exit status."""
from props.common import engine, verify_all, assumed_contracts

LEVEL = "proof"
EXPLANATION = ("Effect contracts (ghost sets of written / removed paths, ghost set of processed files) on the real bodies of "
               "add_header_to_file (a failed header leaves FILE and FILE.license unwritten; only those two may ever be written) "
               "and of the annotate callback (every file of the invocation is processed whatever happened to the others, exit "
               "status 0 or 1, usage errors before any effect).")

FUNCTIONS = ["reuse._annotate.add_header_to_file", "reuse.cli.annotate.all_paths", "reuse.cli.annotate.annotate"]


def run(ctx):
    e = engine(ctx, modules=("contracts.report", "contracts.cli", "contracts.annotate"))
    verify_all(ctx, e, FUNCTIONS)
    assumed_contracts(ctx, e, "C11")
    ctx.assume("header construction (find_and_replace_header / add_new_header) fails only with CommentCreateError or "
               "MissingReuseInfoError and has no file-system effect (C07-C10)")
    ctx.assume("click runs MutexOption.handle_parse_result for every parameter before the callback (usage errors of option parsing)")
    ctx.assume("the exit status is 1 exactly when some file failed: proved only as 'exit status is 0 or 1 and min(result, 1)'; the "
               "per-file result is the helper's return value")
    ctx.trust("Path.touch / open(mode) / write effects as modelled (DESIGN 3.5)")
