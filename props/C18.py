"""C18 - the SPDX bill of materials is a faithful, well-formed image of the project."""
import hashlib
import itertools
import json
import os
import re
import shutil
import tempfile

from props.common import engine, verify_all, lemmas, assumed_contracts
from pyvc.driver import Bounded, VERIF

LEVEL = "proof"
EXPLANATION = ("Contracts on the real bodies of FileReport.generate (name relative to the root, SPDXID = 'SPDXRef-' + MD5(name + "
               "checksum), checksum = SHA-1 of the file when requested, licence identifiers = the keys of the file's expressions, "
               "copyright text present iff a notice exists, LicenseConcluded NOASSERTION / NONE cases), format_creator, and the "
               "identifier-uniqueness lemma. The emitted document (one File section per covered file, DESCRIBES relationships, "
               "checksums, per-file licences and copyright as lint reports them, LicenseRef texts, tag-value line shape), the "
               "chunked SHA-1 loop and the logical equivalence of LicenseConcluded are bounded checks (labelled bounded).")

FUNCTIONS = ["reuse.report.FileReport.generate", "reuse.report.format_creator"]

PY = "# SPDX-FileCopyrightText: 2020 Jane Doe\n# SPDX-License-Identifier: {}\nx = 1\n"
TREES = {
    "plain": {"a.py": PY.format("MIT"), "LICENSES/MIT.txt": "MIT text"},
    "no-info-and-spaces": {"a b.py": PY.format("MIT"), "no info.txt": "nothing here\n", "only c.py": "# SPDX-FileCopyrightText: X\n",
                           "LICENSES/MIT.txt": "MIT text"},
    "several-expressions": {
        "m.py": "# SPDX-FileCopyrightText: A\n# SPDX-FileCopyrightText: B\n# SPDX-License-Identifier: MIT OR 0BSD\n"
                "# SPDX-License-Identifier: GPL-2.0-or-later WITH Classpath-exception-2.0\n# SPDX-License-Identifier: (MIT AND ISC) OR MIT\n",
        "LICENSES/MIT.txt": "m", "LICENSES/0BSD.txt": "b", "LICENSES/ISC.txt": "i", "LICENSES/GPL-2.0-or-later.txt": "g",
        "LICENSES/Classpath-exception-2.0.txt": "c"},
    "licenseref-and-toml": {
        "REUSE.toml": 'version = 1\n[[annotations]]\npath = "data/**"\nSPDX-FileCopyrightText = "2021 Data Corp"\n'
                      'SPDX-License-Identifier = "LicenseRef-Data AND CC0-1.0"\n',
        "data/x.bin": b"\x00\x01\x02", "data/y z.csv": "1,2\n", "src/k.c": "/* SPDX-FileCopyrightText: K\n * SPDX-License-Identifier: LicenseRef-Other-1.0\n */\n",
        "LICENSES/LicenseRef-Data.txt": "Data licence\nsecond line\n", "LICENSES/LicenseRef-Other-1.0.txt": "Other caf\xe9\n",
        "LICENSES/CC0-1.0.txt": "cc0"},
    "dot-license-and-dep5": {
        ".reuse/dep5": "Format: https://www.debian.org/doc/packaging-manuals/copyright-format/1.0/\nUpstream-Name: x\n\n"
                       "Files: doc/*\nCopyright: 2019 Doc Writers\nLicense: CC-BY-SA-4.0\n",
        "doc/a.md": "text\n", "img.png": b"\x89PNG\r\n", "img.png.license": "SPDX-FileCopyrightText: Artist\nSPDX-License-Identifier: CC-BY-4.0\n",
        "LICENSES/CC-BY-4.0.txt": "x", "LICENSES/CC-BY-SA-4.0.txt": "y", "LICENSES/Unused-But-There.txt": "z",
        "LICENSES/LicenseRef-Unused-By-Any-File.txt": "nobody refers to this text\n"},
    "same-basename-same-content": {"p1/__init__.py": PY.format("MIT"), "p2/__init__.py": PY.format("MIT"), "p2/sub/__init__.py": PY.format("MIT"),
                                   "e1/empty": "", "e2/empty": "", "LICENSES/MIT.txt": "MIT text",
                                   "REUSE.toml": 'version = 1\n[[annotations]]\npath = "**/empty"\nSPDX-FileCopyrightText = "E"\nSPDX-License-Identifier = "MIT"\n'},
    "two-sources-per-file": {
        "REUSE.toml": 'version = 1\n[[annotations]]\npath = "src/**"\nprecedence = "aggregate"\nSPDX-FileCopyrightText = "Agg Corp"\nSPDX-License-Identifier = "MIT"\n',
        "src/both.c": "/* SPDX-FileCopyrightText: K\n * SPDX-License-Identifier: ISC OR 0BSD\n */\n", "src/only_c.c": "/* SPDX-FileCopyrightText: K */\n",
        "src/img.png": b"\x89PNG", "src/img.png.license": "SPDX-FileCopyrightText: A\nSPDX-License-Identifier: CC0-1.0\n",
        "LICENSES/MIT.txt": "m", "LICENSES/ISC.txt": "i", "LICENSES/0BSD.txt": "b", "LICENSES/CC0-1.0.txt": "c"},
    "ignored-and-nested": {
        "a.py": PY.format("Apache-2.0+"), "build/.gitkeep": "", ".git/config": "x", "sub/COPYING": "gpl", "sub/deep/f.sh": "#!/bin/sh\n# SPDX-FileCopyrightText: S\n# SPDX-License-Identifier: MIT AND (0BSD OR MIT)\n",
        "LICENSES/Apache-2.0.txt": "a", "LICENSES/MIT.txt": "m", "LICENSES/0BSD.txt": "b"},
}
OPTIONS = [[], ["--creator-person", "Jane (jane@example.com)"], ["--creator-organization", "Example Org"],
           ["--add-license-concluded", "--creator-person", "Jane"],
           ["--add-license-concluded", "--creator-organization", "Org (o@example.com)", "--creator-person", "P"],
           ["-o", "out.spdx"], ["--add-license-concluded", "--creator-person", "J", "-o", "bom.spdx"]]


# ---- a boolean reading of SPDX expressions, independent of the library -------------------------------------------------
def tokens(expr):
    return re.findall(r"\(|\)|[^\s()]+", expr)


def parse_expr(expr):
    toks = tokens(expr)
    pos = [0]

    def peek():
        return toks[pos[0]] if pos[0] < len(toks) else None

    def take():
        pos[0] += 1
        return toks[pos[0] - 1]

    def atom():
        if peek() == "(":
            take()
            e = p_or()
            assert take() == ")"
            return e
        name = take()
        if peek() is not None and peek().upper() == "WITH":
            take()
            name = name + " WITH " + take()
        return ("sym", name)

    def p_and():
        e = atom()
        while peek() is not None and peek().upper() == "AND":
            take()
            e = ("and", e, atom())
        return e

    def p_or():
        e = p_and()
        while peek() is not None and peek().upper() == "OR":
            take()
            e = ("or", e, p_and())
        return e
    e = p_or()
    assert pos[0] == len(toks), expr
    return e


def symbols(e):
    return {e[1]} if e[0] == "sym" else symbols(e[1]) | symbols(e[2])


def evaluate(e, env):
    if e[0] == "sym":
        return env[e[1]]
    a, b = evaluate(e[1], env), evaluate(e[2], env)
    return (a and b) if e[0] == "and" else (a or b)


def equivalent(concluded, expressions):
    lhs = parse_expr(concluded)
    rhs = [parse_expr(x) for x in expressions]
    syms = sorted(symbols(lhs).union(*[symbols(r) for r in rhs]))
    for bits in itertools.product([False, True], repeat=len(syms)):
        env = dict(zip(syms, bits))
        if evaluate(lhs, env) != all(evaluate(r, env) for r in rhs):
            return False, env
    return True, None


# ---- tag-value reading ---------------------------------------------------------------------------------------------------
def parse_tag_value(text):
    """-> list of (tag, value) in order; raises ValueError on a line that is neither 'Tag: value', blank, nor inside <text>"""
    out, lines, i = [], text.split("\n"), 0
    while i < len(lines):
        line = lines[i]
        i += 1
        if line == "":
            continue
        m = re.fullmatch(r"([A-Za-z][A-Za-z0-9]*): (.*)", line, re.S)
        if not m:
            raise ValueError(f"not a tag-value line: {line!r}")
        tag, val = m.group(1), m.group(2)
        if "<text>" in val and "</text>" not in val:
            while i < len(lines):
                val += "\n" + lines[i]
                i += 1
                if "</text>" in lines[i - 1]:
                    break
            else:
                raise ValueError(f"unterminated <text> in {tag}")
        out.append((tag, val))
    return out


def untext(v):
    m = re.fullmatch(r"<text>(.*)</text>", v, re.S)
    return m.group(1) if m else None


def write_tree(root, files):
    for rel, data in files.items():
        p = os.path.join(root, rel)
        os.makedirs(os.path.dirname(p), exist_ok=True)
        with open(p, "wb") as fp:
            fp.write(data if isinstance(data, bytes) else data.encode())


def check_document(text, root, lint, opts):
    """-> list of problems of one emitted document against the tree and lint's JSON"""
    from license_expression import Licensing
    problems = []
    try:
        tv = parse_tag_value(text)
    except ValueError as e:
        return [str(e)]
    head = [t for t, _ in tv[:4]]
    if head != ["SPDXVersion", "DataLicense", "SPDXID", "DocumentName"]:
        problems.append(f"document header tags {head}")
    concluded = "--add-license-concluded" in opts
    describes = [v.split()[-1] for t, v in tv if t == "Relationship" and " DESCRIBES " in v]
    sections, cur = [], None
    licrefs, curl = [], None
    for t, v in tv:
        if t == "FileName":
            cur = {"FileName": v, "LicenseInfoInFile": []}
            sections.append(cur)
            curl = None
        elif t == "LicenseID":
            curl = {"LicenseID": v}
            licrefs.append(curl)
            cur = None
        elif cur is not None:
            if t == "LicenseInfoInFile":
                cur[t].append(v)
            elif t in cur:
                problems.append(f"{cur['FileName']}: tag {t} twice")
            else:
                cur[t] = v
        elif curl is not None:
            curl[t] = v
    want_files = {f["path"]: f for f in lint["files"]}
    got_names = [s["FileName"] for s in sections]
    if sorted(got_names) != sorted("./" + p for p in want_files):
        problems.append(f"File sections {sorted(got_names)} but covered files {sorted(want_files)}")
    ids = [s.get("SPDXID") for s in sections]
    if len(set(ids)) != len(ids) or any(i is None or not re.fullmatch(r"SPDXRef-[A-Za-z0-9.\-]+", i) for i in ids):
        problems.append(f"SPDXIDs not unique / malformed: {ids}")
    if sorted(describes) != sorted(ids):
        problems.append(f"DESCRIBES relationships {sorted(describes)} vs SPDXIDs {sorted(ids)}")
    lic = Licensing()
    for s in sections:
        rel = s["FileName"][2:]
        f = want_files.get(rel)
        if f is None:
            continue
        with open(os.path.join(root, rel), "rb") as fp:
            sha = hashlib.sha1(fp.read()).hexdigest()
        if s.get("FileChecksum") != f"SHA1: {sha}":
            problems.append(f"{rel}: FileChecksum {s.get('FileChecksum')} but SHA-1 is {sha}")
        exprs = [e["value"] for e in f["spdx_expressions"]]
        keys = set()
        for e in exprs:
            keys |= set(lic.license_keys(lic.parse(e)))
        if set(s["LicenseInfoInFile"]) != keys:
            problems.append(f"{rel}: LicenseInfoInFile {sorted(s['LicenseInfoInFile'])} but lint attributes {sorted(keys)}")
        cl = {c["value"] for c in f["copyrights"]}
        ct = s.get("FileCopyrightText")
        got = set() if ct == "NONE" else set((untext(ct) or "<malformed>").split("\n"))
        if got != cl or (ct == "NONE") != (not cl):
            problems.append(f"{rel}: FileCopyrightText {ct!r} but lint attributes {sorted(cl)}")
        lc = s.get("LicenseConcluded")
        if not concluded:
            if lc != "NOASSERTION":
                problems.append(f"{rel}: LicenseConcluded {lc!r} without --add-license-concluded")
        elif not exprs:
            if lc != "NONE":
                problems.append(f"{rel}: LicenseConcluded {lc!r} for a file without licence expressions")
        else:
            try:
                ok, env = equivalent(lc, exprs)
            except Exception as e:  # noqa
                ok, env = False, f"unreadable: {e}"
            if not ok:
                problems.append(f"{rel}: LicenseConcluded {lc!r} not equivalent to the conjunction of {exprs} (assignment {env})")
    want_refs = {}
    ldir = os.path.join(root, "LICENSES")
    for name in sorted(os.listdir(ldir)) if os.path.isdir(ldir) else []:
        stem = name.rsplit(".", 1)[0] if "." in name else name
        if stem.startswith("LicenseRef-") and not name.endswith(".license"):
            with open(os.path.join(ldir, name), "rb") as fp:
                want_refs[stem] = fp.read().decode("utf-8", errors="replace")
    got_refs = {l["LicenseID"]: untext(l.get("ExtractedText", "")) for l in licrefs}
    if got_refs != want_refs:
        problems.append(f"LicenseRef sections {got_refs} but LICENSES/ holds {want_refs}")
    creators = [v for t, v in tv if t == "Creator"]
    if len(creators) != 3 or not creators[0].startswith("Person: ") or not creators[1].startswith("Organization: ") \
            or not creators[2].startswith("Tool: reuse-") or not all(re.search(r" \(.*\)$", c) for c in creators[:2]):
        problems.append(f"Creator lines {creators}")
    return problems


def spdx_documents(tier):
    import warnings
    from click.testing import CliRunner
    from reuse.cli.main import main
    os.environ["_SUPPRESS_DEP5_WARNING"] = "1"
    warnings.simplefilter("ignore")
    os.makedirs(os.path.join(VERIF, ".scratch"), exist_ok=True)
    failures, runs = [], 0
    cwd = os.getcwd()
    for tname, files in TREES.items():
        d = tempfile.mkdtemp(dir=os.path.join(VERIF, ".scratch"))
        try:
            write_tree(d, files)
            os.chdir(d)
            lint = json.loads(CliRunner().invoke(main, ["--root", d, "--no-multiprocessing", "lint", "--json"]).output)
            for opts in OPTIONS:
                for mp in ([True, False] if tier == "thorough" else [False]):
                    args = ["--root", d] + ([] if mp else ["--no-multiprocessing"]) + ["spdx"] + opts
                    r = CliRunner().invoke(main, args)
                    runs += 1
                    if r.exit_code != 0:
                        failures.append({"tree": tname, "options": opts, "problem": f"exit status {r.exit_code}: {r.output[-200:]}", "replayed": True})
                        continue
                    text = r.output
                    if "-o" in opts:
                        outp = os.path.join(d, opts[opts.index("-o") + 1])
                        with open(outp, encoding="utf-8") as fp:
                            text = fp.read()
                        os.remove(outp)
                    for p in check_document(text, d, lint, opts):
                        failures.append({"tree": tname, "options": opts, "problem": p[:600], "replayed": True})
            r = CliRunner().invoke(main, ["--root", d, "spdx", "--add-license-concluded"])
            runs += 1
            if r.exit_code != 2:
                failures.append({"tree": tname, "options": ["--add-license-concluded"], "problem": f"no creator given but exit status {r.exit_code}", "replayed": True})
        finally:
            os.chdir(cwd)
            shutil.rmtree(d, ignore_errors=True)
    return Bounded("spdx-documents", f"{len(TREES)} project trees x {len(OPTIONS)} option combinations of the real `reuse spdx` "
                   "(+ multiprocessing in the thorough tier), each document parsed as tag-value and compared with the tree, "
                   "hashlib.sha1 and `reuse lint --json`", runs, failures[:12], "real CLI through click's CliRunner")


def checksum_chunks():
    from reuse._util import _checksum
    block = 128 * hashlib.sha1().block_size
    sizes = [0, 1, block - 1, block, block + 1, 2 * block, 3 * block + 7]
    failures = []
    d = tempfile.mkdtemp(dir=os.path.join(VERIF, ".scratch"))
    try:
        for n in sizes:
            data = bytes((i * 31 + n) % 251 for i in range(n))
            p = os.path.join(d, f"f{n}")
            with open(p, "wb") as fp:
                fp.write(data)
            if _checksum(p) != hashlib.sha1(data).hexdigest():
                failures.append({"size": n, "problem": "chunked SHA-1 differs from hashlib.sha1 of the whole file", "replayed": True})
    finally:
        shutil.rmtree(d, ignore_errors=True)
    return Bounded("checksum-chunks", f"file sizes {sizes} around the {block}-byte chunk boundary", len(sizes), failures,
                   "real _checksum against hashlib.sha1")


def expression_grammar(tier):
    syms = ["MIT", "0BSD", "GPL-2.0-only WITH Classpath-exception-2.0", "Apache-2.0+"]
    level0 = list(syms)
    level1 = [f"{a} {op} {b}" for a in syms for b in syms for op in ("AND", "OR")]
    level2 = [f"({a}) {op} {b}" for a in level1[::3] for b in syms[:3] for op in ("AND", "OR")] + \
             [f"{b} {op} ({a})" for a in level1[1::5] for b in syms[:2] for op in ("AND", "OR")]
    singles = level0 + level1 + (level2 if tier == "thorough" else level2[::4])
    sets = [[e] for e in singles]
    pairs = list(itertools.combinations(level0 + level1[::2], 2))
    sets += [list(p) for p in (pairs if tier == "thorough" else pairs[::7])]
    sets += [["MIT OR 0BSD", "MIT AND 0BSD", "0BSD"], ["MIT", "MIT"], ["(MIT OR 0BSD) AND (MIT OR Apache-2.0+)", "0BSD OR MIT"]]
    return sets


def concluded_truth_tables(tier):
    """expression sets from a grammar, declared in a .license sidecar, through the real FileReport.generate"""
    from reuse.project import Project
    from reuse.report import FileReport
    from pathlib import Path
    failures, cases = [], 0
    d = tempfile.mkdtemp(dir=os.path.join(VERIF, ".scratch"))
    try:
        write_tree(d, {"f.bin": b"\x00"})
        project = Project.from_directory(Path(d))
        for exprs in expression_grammar(tier):
            cases += 1
            with open(os.path.join(d, "f.bin.license"), "w") as fp:
                fp.write("SPDX-FileCopyrightText: X\n" + "".join(f"SPDX-License-Identifier: {e}\n" for e in exprs))
            rep = FileReport.generate(project, Path(d) / "f.bin", add_license_concluded=True)
            try:
                ok, env = equivalent(rep.license_concluded, exprs)
            except Exception as e:  # noqa
                ok, env = False, f"unreadable: {e}"
            if not ok:
                failures.append({"expressions": exprs, "license_concluded": rep.license_concluded, "assignment": env,
                                 "problem": "LicenseConcluded is not equivalent to the conjunction", "replayed": True})
    finally:
        shutil.rmtree(d, ignore_errors=True)
    return Bounded("concluded-truth-tables", "expression sets over 4 licence symbols (one WITH, one '+'), nesting depth <= 2, up to "
                   "3 expressions per file; every truth assignment of the symbols", cases, failures[:10],
                   "real FileReport.generate(add_license_concluded=True); an independent boolean reading of both sides")


def run(ctx):
    e = engine(ctx)
    from pyvc.driver import generic_replay
    for q in FUNCTIONS:
        ctx.verify(e, q, replay=generic_replay(q) if q == "reuse.report.format_creator" else None)
    lemmas(ctx, e, "C18")
    assumed_contracts(ctx, e, "C18")
    ctx.bounded.append(spdx_documents(ctx.tier))
    ctx.bounded.append(checksum_chunks())
    ctx.bounded.append(concluded_truth_tables(ctx.tier))
    ctx.assume("MD5 and SHA-1 are uninterpreted functions of their input text; identifier uniqueness assumes MD5 collision-free "
               "on the (name + checksum) texts of one project")
    ctx.assume("license_expression's parse / simplify / render are outside the verified subset: LicenseConcluded equivalence is the "
               "bounded truth-table check only")
    ctx.assume("bill_of_materials' write loop is not under contract: the emitted document is compared by the bounded check; "
               "'parses as SPDX tag-value' is decided at the level of line shape (Tag: value / <text> blocks), no SPDX validator is installed")
    ctx.assume("which files are covered is C03's obligation; the per-file information is C04's")
