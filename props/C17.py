"""C17 - convert-dep5 produces an equivalent REUSE.toml."""
import itertools
import multiprocessing as mp
import os
import re

LEVEL = "other"
EXPLANATION = ("For every legal dep5 wildcard pattern over {a / * ? \\} up to a stated length the REAL dep5 matcher "
               "(python-debian globs_to_re, fullmatch) and the REAL REUSE.toml matcher of the converted pattern "
               "(_convert_asterisk + AnnotationsItem) are translated to regular languages and compared for ALL paths "
               "(bounded in the pattern, unbounded in the path). The conversion as a whole (paragraph order = precedence, "
               "copyright / licence / comment content) is exercised end to end on dep5 files with overlapping and identically licensed paragraphs.")

TIMEOUT_MS = [20000]
ALPHABET = ["a", "/", "*", "?", "\\"]


def check_pattern(pat):
    import z3
    from pyvc import rx
    from debian.copyright import globs_to_re, MachineReadableFormatError
    from reuse.convert_dep5 import _convert_asterisk
    from reuse.global_licensing import AnnotationsItem
    try:
        dep5_re = globs_to_re([pat])
    except MachineReadableFormatError:
        return {"pattern": pat, "illegal": True}
    converted = _convert_asterisk(pat)
    item = AnnotationsItem(paths={converted})
    try:
        a = rx.Lang(dep5_re.pattern, dep5_re.flags & ~re.MULTILINE).fullmatch_lang()
        b = rx.Lang(item._paths_regex).match_lang()
    except rx.RxUnsupported as e:
        return {"pattern": pat, "error": str(e)}
    fails = []
    x = z3.String("path")
    for kind, l1, l2 in (("lost", a, b), ("gained", b, a)):
        from pyvc import rxempty
        verdict, w = rxempty.decide([(l1, True), (l2, False)], TIMEOUT_MS[0])
        r = {"sat": z3.sat, "unsat": z3.unsat, "unknown": z3.unknown}[verdict]
        if r == z3.sat:
            before = dep5_re.fullmatch(w) is not None
            after = bool(item.matches(w))
            fails.append({"pattern": pat, "converted": converted, "kind": kind, "path": w, "dep5_matches": before,
                          "toml_matches": after, "replayed": before != after})
        elif r == z3.unknown:
            fails.append({"pattern": pat, "kind": kind, "unknown": True})
    return {"pattern": pat, "fails": fails}


DEP5_HEAD = "Format: https://www.debian.org/doc/packaging-manuals/copyright-format/1.0/\nUpstream-Name: x\nUpstream-Contact: y\nSource: z\n"
PARAS = [("*", "2001 Jane", "MIT"), ("src/*", "2002 John", "0BSD"), ("src/vendor/jane.dat", "2001 Jane", "MIT"), ("doc/*.md docs/*", "2003 Doc", "CC0-1.0"),
         ("src/*.c", "2004 C People", "ISC"), ("*.dat", "2002 John", "0BSD"), ("src/vendor/*", "2005 Vendor", "Apache-2.0"),
         (".github/* .editorconfig", "2006 Dot Files", "Unlicense")]
FILES = ["top.txt", "a.dat", "src/main.c", "src/util.py", "src/vendor/jane.dat", "src/vendor/lib.c", "doc/a.md", "doc/b.txt", "docs/deep/x.md",
         "other/deep/f.dat", ".github/w.yml", ".github/deep/x.yml", ".editorconfig"]


def conversion_end_to_end(tier):
    """dep5 files with several (overlapping, non-adjacent, identically licensed) paragraphs: per-file information before
    and after the real `reuse convert-dep5`"""
    import shutil, tempfile, warnings
    from pathlib import Path
    from click.testing import CliRunner
    from pyvc.driver import Bounded, VERIF
    from reuse.cli.main import main
    from reuse.project import Project
    os.environ["_SUPPRESS_DEP5_WARNING"] = "1"
    warnings.simplefilter("ignore")
    os.makedirs(os.path.join(VERIF, ".scratch"), exist_ok=True)
    failures, cases = [], 0
    k = 4 if tier == "thorough" else 3
    combos = [c for n in range(1, k + 1) for c in itertools.permutations(range(len(PARAS)), n)]
    if tier != "thorough":
        combos = combos[::3]
    cwd = os.getcwd()

    def view(root):
        project = Project.from_directory(Path(root))
        out = {}
        for f in FILES:
            infos = project.reuse_info_of(Path(root) / f)
            out[f] = (sorted(l for i in infos for l in i.copyright_lines), sorted(str(e) for i in infos for e in i.spdx_expressions))
        return out
    for combo in combos:
        cases += 1
        d = tempfile.mkdtemp(dir=os.path.join(VERIF, ".scratch"))
        try:
            for f in FILES:
                os.makedirs(os.path.dirname(os.path.join(d, f)) or d, exist_ok=True)
                with open(os.path.join(d, f), "w") as fp:
                    fp.write("data\n")
            os.makedirs(os.path.join(d, ".reuse"))
            text = DEP5_HEAD + "".join(f"\nFiles: {PARAS[i][0]}\nCopyright: {PARAS[i][1]}\nLicense: {PARAS[i][2]}\n" for i in combo)
            with open(os.path.join(d, ".reuse", "dep5"), "w") as fp:
                fp.write(text)
            before = view(d)
            os.chdir(d)
            try:
                r = CliRunner().invoke(main, ["--root", d, "convert-dep5"])
            finally:
                os.chdir(cwd)
            case = {"paragraphs": [PARAS[i] for i in combo]}
            if r.exit_code != 0 or not os.path.exists(os.path.join(d, "REUSE.toml")) or os.path.exists(os.path.join(d, ".reuse", "dep5")):
                failures.append(dict(case, problem=f"convert-dep5 exit {r.exit_code}: {r.output[-200:]}", replayed=True))
                continue
            after = view(d)
            for f in FILES:
                if before[f] != after[f]:
                    failures.append(dict(case, file=f, problem=f"{f}: before the conversion {before[f]}, after it {after[f]}", replayed=True))
                    break
        finally:
            shutil.rmtree(d, ignore_errors=True)
        if len(failures) > 10:
            break
    return Bounded("conversion-end-to-end", f"every ordered selection of up to {k} of {len(PARAS)} Files paragraphs (overlapping patterns, "
                   f"identical licensing in non-adjacent paragraphs) x {len(FILES)} files: copyright and licence per file before and after the "
                   "real convert-dep5", cases, failures[:10], "real `reuse convert-dep5`; Project.reuse_info_of before (dep5) and after (REUSE.toml)")


def run(ctx):
    from pyvc.driver import Bounded
    maxlen = 5 if ctx.tier == "thorough" else 4
    pats = ["".join(p) for n in range(1, maxlen + 1) for p in itertools.product(ALPHABET, repeat=n)]
    with mp.get_context("fork").Pool(min(16, os.cpu_count() or 4)) as pool:
        results = pool.map(check_pattern, pats, chunksize=8)
    retry = [r["pattern"] for r in results if any(f.get("unknown") for f in r.get("fails", []))]
    if retry:
        TIMEOUT_MS[0] = 60000
        results = [r for r in results if r["pattern"] not in retry] + [check_pattern(p_) for p_ in retry]
        TIMEOUT_MS[0] = 20000
    legal = [r for r in results if not r.get("illegal")]
    errors = [r for r in legal if "error" in r]
    if errors:
        raise RuntimeError(f"regex outside the translated fragment: {errors[:3]}")
    failures = [f for r in legal for f in r["fails"]]
    ctx.samples.append({"patterns": len(pats), "legal": len(legal), "example": check_pattern("a*/\\*")})
    ctx.bounded.append(Bounded("matcher-equivalence", f"every legal dep5 pattern over {ALPHABET} up to length {maxlen}; all paths per pattern",
                               len(legal) * 2, failures, "language equality of the two real compiled matchers, decided by z3"))
    ctx.bounded.append(conversion_end_to_end(ctx.tier))
    ctx.trust("python-debian globs_to_re / FilesParagraph.matches (installed version), tomlkit dumps/loads round trip")
    ctx.trust("z3 regex theory; pyvc.rx translation")


def _unescaped(pattern):
    return re.sub(r"\\.", "E", pattern)


def kf_question_mark(f):
    """known finding: dep5 '?' (any single character) has no REUSE.toml counterpart; it is copied as a literal"""
    return "?" in _unescaped(f.get("pattern", ""))


def kf_star_slash(f):
    """known finding: dep5 '*/' requires a slash; the converted '**/' also matches zero directories"""
    return "*/" in _unescaped(f.get("pattern", "")) and "?" not in _unescaped(f.get("pattern", ""))
