"""C05 - REUSE.toml path globs match exactly the language the specification defines."""
import itertools
import multiprocessing as mp
import os
import re

LEVEL = "other"
EXPLANATION = ("For every glob over {a . / * \\} up to a stated length, the REAL compiled matcher (AnnotationsItem._paths_regex, "
               "built by the real translate()) is translated to a regular language and both inclusions of the sandwich "
               "L_narrow(g) <= L(code(g)) <= L_wide(g) are decided by the solver for ALL paths (unbounded in the path, bounded in the glob).")

TIMEOUT_MS = [20000]
ALPHABET = ["a", ".", "/", "*", "\\"]


def tokens(glob):
    """Spec tokenizer, from the statement: backslash makes the next character literal; a maximal run of >= 2 asterisks
    is a globstar; a single asterisk is a star; every other character is itself."""
    out, i, n = [], 0, len(glob)
    while i < n:
        c = glob[i]
        if c == "\\":
            if i + 1 < n:
                out.append(("LIT", glob[i + 1]))
                i += 2
            else:
                out.append(("TRAILING_BACKSLASH", None))
                i += 1
        elif c == "*":
            j = i
            while j < n and glob[j] == "*":
                j += 1
            out.append(("GLOBSTAR", None) if j - i >= 2 else ("STAR", None))
            i = j
        else:
            out.append(("LIT", c))
            i += 1
    return out


def spec_langs(glob, newline_free):
    """(narrow, wide) regular languages of the glob."""
    import z3
    from pyvc import rx
    sigma = rx.anychar() if not newline_free else z3.Intersect(rx.anychar(), z3.Complement(rx.ch("\n")))
    notslash = z3.Intersect(sigma, z3.Complement(rx.ch("/")))
    toks = tokens(glob)
    narrow, wide = [], []
    k = 0
    while k < len(toks):
        t, c = toks[k]
        if t == "LIT":
            narrow.append(rx.ch(c)); wide.append(rx.ch(c))
        elif t == "STAR":
            narrow.append(z3.Star(notslash)); wide.append(z3.Star(notslash))
        elif t == "GLOBSTAR":
            if k + 1 < len(toks) and toks[k + 1] == ("LIT", "/"):
                both = rx.concat([z3.Star(sigma), rx.ch("/")])
                narrow.append(both); wide.append(z3.Option(both))     # '**/' may also match zero directories
                k += 1
            else:
                narrow.append(z3.Star(sigma)); wide.append(z3.Star(sigma))
        elif t == "TRAILING_BACKSLASH":
            narrow.append(rx.empty() if False else rx.eps()); wide.append(z3.Option(rx.ch("\\")))
        k += 1
    return rx.concat(narrow), rx.concat(wide)


def check_glob(args):
    glob, newline_free = args
    import z3
    from pyvc import rx
    from reuse.global_licensing import AnnotationsItem
    item = AnnotationsItem(paths={glob})
    pat = item._paths_regex
    try:
        code = rx.Lang(pat).match_lang()
    except rx.RxUnsupported as e:
        return {"glob": glob, "error": str(e)}
    narrow, wide = spec_langs(glob, newline_free)
    sigma_star = z3.Star(rx.anychar() if not newline_free else z3.Intersect(rx.anychar(), z3.Complement(rx.ch("\n"))))
    fails = []
    x = z3.String("path")
    for name, a, b in (("missed", narrow, code), ("overmatch", code, wide)):
        from pyvc import rxempty
        verdict, w = rxempty.decide([(sigma_star, True), (a, True), (b, False)], TIMEOUT_MS[0])
        if verdict == "sat":
            real = bool(item.matches(w))
            expected = name == "missed"
            fails.append({"glob": glob, "kind": name, "path": w, "real_matches": real, "regex": pat.pattern,
                          "replayed": real != expected})
        elif verdict == "unknown":
            fails.append({"glob": glob, "kind": name, "unknown": True})
    return {"glob": glob, "fails": fails}


def check_table(globs):
    """An [[annotations]] table with several globs applies exactly when one of them matches: the language of the
    compiled alternation is sandwiched between the unions of the narrow and of the wide readings."""
    import z3
    from pyvc import rx
    from reuse.global_licensing import AnnotationsItem
    item = AnnotationsItem(paths=set(globs))
    pat = item._paths_regex
    try:
        code = rx.Lang(pat).match_lang()
    except rx.RxUnsupported as e:
        return {"glob": list(globs), "error": str(e)}
    narrow = rx.union(spec_langs(g, False)[0] for g in globs)
    wide = rx.union(spec_langs(g, False)[1] for g in globs)
    fails = []
    x = z3.String("path")
    for name, a, b in (("missed", narrow, code), ("overmatch", code, wide)):
        from pyvc import rxempty
        verdict, w = rxempty.decide([(a, True), (b, False)], TIMEOUT_MS[0])
        if verdict == "sat":
            real = bool(item.matches(w))
            fails.append({"glob": list(globs), "kind": name, "path": w, "real_matches": real, "regex": pat.pattern,
                          "replayed": real != (name == "missed")})
        elif verdict == "unknown":
            fails.append({"glob": list(globs), "kind": name, "unknown": True})
    return {"glob": list(globs), "fails": fails}


def run(ctx):
    from pyvc.driver import Bounded
    maxlen = 6 if ctx.tier == "thorough" else 4
    globs = ["".join(p) for n in range(1, maxlen + 1) for p in itertools.product(ALPHABET, repeat=n)]
    results = []
    with mp.get_context("fork").Pool(min(16, os.cpu_count() or 4)) as pool:
        for r in pool.imap_unordered(check_glob, [(g, False) for g in globs], chunksize=8):
            results.append(r)
    # solver `unknown` is not a verdict: retry those globs alone with a long budget
    retry = [r["glob"] for r in results if any(f.get("unknown") for f in r.get("fails", []))]
    if retry:
        TIMEOUT_MS[0] = 60000
        results = [r for r in results if r["glob"] not in retry] + [check_glob((g, False)) for g in retry]
        TIMEOUT_MS[0] = 20000
    failures, errors, decided = [], [], 0
    for r in results:
        if "error" in r:
            errors.append(r)
            continue
        decided += 2
        for f in r["fails"]:
            failures.append(f)
    if errors:
        raise RuntimeError(f"regex outside the translated fragment: {errors[:3]}")
    # tables with two and three globs (grouping / anchoring of the alternation, independent of set iteration order)
    short = ["".join(p) for n in range(1, 3) for p in itertools.product(ALPHABET, repeat=n)]
    tables = [t for t in itertools.combinations(short, 2)]
    if ctx.tier != "thorough":
        tables = tables[::3]
    tables += [("*.py", "docs/**", "README"), ("a", "b", "c"), ("src/*", "**/x", "\\*")]
    with mp.get_context("fork").Pool(min(16, os.cpu_count() or 4)) as pool:
        tres = pool.map(check_table, tables, chunksize=8)
    for r in tres:
        if "error" in r:
            raise RuntimeError(f"regex outside the translated fragment: {r}")
        decided += 2
        for f in r["fails"]:
            if f.get("unknown"):
                TIMEOUT_MS[0] = 60000
                f2 = [x for x in check_table(tuple(r["glob"]))["fails"] if x["kind"] == f["kind"]]
                TIMEOUT_MS[0] = 20000
                failures += f2
            else:
                failures.append(f)
    ctx.samples.append({"globs": len(globs), "tables": len(tables), "inclusion_queries": decided, "example": check_glob(("**/*.py", False))})
    ctx.bounded.append(Bounded("glob-language-sandwich", f"every glob over {ALPHABET} up to length {maxlen}; all paths (unbounded) per glob",
                               decided, failures, "language inclusion decided by z3's regex solver on the real compiled matcher"))
    ctx.trust("z3 sequence/regex theory; pyvc.rx translation of Python re syntax (literals, classes, star, groups, ^ $)")
    ctx.assume("Python re implements the regular language denoted by the pattern for this fragment (no backreferences/lookaround here)")
    ctx.notes.append("paths range over ALL strings (including newlines); code points above U+2FFFF are outside the solver alphabet")
