"""C15 - commands touch only what they are documented to touch."""
import ast
import os

from props.common import engine, verify_all, assumed_contracts
from pyvc.driver import Bounded

LEVEL = "proof"
EXPLANATION = ("Effect frames: every writing API in the package is found by a syntactic scan on each run and must lie in a function "
               "that carries an effect contract; those contracts (ghost sets of written / created / removed paths) are verified on "
               "the real bodies: lint and lint-file write nothing, annotate writes only the named files (or the project's covered "
               "files below named directories) or their .license siblings, convert-dep5 writes REUSE.toml and only then removes "
               ".reuse/dep5, download writes exactly its destination when absent.")

FUNCTIONS = [
    "reuse.cli.lint.lint", "reuse.cli.lint_file.lint_file",
    "reuse._annotate.add_header_to_file", "reuse.cli.annotate.all_paths", "reuse.cli.annotate.annotate",
    "reuse.cli.convert_dep5.convert_dep5", "reuse.download.put_license_in_file", "reuse.cli.download.download",
]

# functions allowed to contain a writing API, each under an effect contract or a listed assumption
WRITERS = {
    ("reuse/_annotate.py", "add_header_to_file"): "contract reuse._annotate.add_header_to_file",
    ("reuse/cli/annotate.py", "annotate"): "contract reuse.cli.annotate.annotate",
    ("reuse/cli/convert_dep5.py", "convert_dep5"): "contract reuse.cli.convert_dep5.convert_dep5",
    ("reuse/download.py", "put_license_in_file"): "contract reuse.download.put_license_in_file",
    ("reuse/cli/spdx.py", "spdx"): "assumed: click.File('w') opens the -o path lazily, only when written to",
    ("reuse/cli/main.py", "main"): "assumed: sets one environment variable of the own process",
    ("reuse/_util.py", "execute_command"): "assumed: runs the VCS binaries (git/hg/jj/pijul queries are read-only; `git status` may refresh .git/index)",
}
DENY = {"write_text", "write_bytes", "touch", "unlink", "rename", "mkdir", "rmdir", "rmtree", "copyfile", "copytree", "copy2",
        "move", "chmod", "symlink_to", "hardlink_to", "makedirs", "truncate", "removedirs"}
MODULE_ONLY = {"copy", "remove", "replace"}   # writing only when called on os / shutil


def scan_writers():
    found = []
    root = "/repo/src/reuse"
    for dp, dn, fn in os.walk(root):
        for f in fn:
            if not f.endswith(".py"):
                continue
            p = os.path.join(dp, f)
            tree = ast.parse(open(p, encoding="utf-8").read())
            rel = os.path.relpath(p, "/repo/src")

            class V(ast.NodeVisitor):
                def __init__(self):
                    self.stack = []

                def visit_FunctionDef(self, n):
                    self.stack.append(n.name)
                    self.generic_visit(n)
                    self.stack.pop()
                visit_AsyncFunctionDef = visit_FunctionDef

                def visit_ClassDef(self, n):
                    self.generic_visit(n)

                def where(self):
                    return self.stack[0] if self.stack else "<module>"

                def visit_Call(self, n):
                    name = n.func.attr if isinstance(n.func, ast.Attribute) else (n.func.id if isinstance(n.func, ast.Name) else None)
                    hit = None
                    if isinstance(n.func, ast.Attribute) and name in DENY:
                        hit = name
                    if isinstance(n.func, ast.Attribute) and name in MODULE_ONLY and isinstance(n.func.value, ast.Name) \
                            and n.func.value.id in ("os", "shutil"):
                        hit = f"{n.func.value.id}.{name}"
                    if name == "open":
                        mode = None
                        if isinstance(n.func, ast.Name) and len(n.args) >= 2 and isinstance(n.args[1], ast.Constant):
                            mode = n.args[1].value
                        if isinstance(n.func, ast.Attribute) and n.args and isinstance(n.args[0], ast.Constant):
                            mode = n.args[0].value
                        for k in n.keywords:
                            if k.arg == "mode" and isinstance(k.value, ast.Constant):
                                mode = k.value.value
                        if isinstance(mode, str) and any(c in mode for c in "wax+"):
                            hit = f"open({mode})"
                        elif mode is not None and not isinstance(mode, str):
                            hit = "open(<computed mode>)"
                    if name in ("run", "Popen", "check_output", "check_call", "system", "popen", "spawn"):
                        hit = "subprocess:" + name
                    if name == "File" and isinstance(n.func, ast.Attribute):
                        hit = "click.File"
                    if hit:
                        found.append((rel, self.where(), hit, n.lineno))
                    self.generic_visit(n)

                def visit_Subscript(self, n):
                    if isinstance(n.ctx, (ast.Store, ast.Del)) and isinstance(n.value, ast.Attribute) and n.value.attr == "environ":
                        found.append((rel, self.where(), "os.environ[...]=", n.lineno))
                    self.generic_visit(n)
            V().visit(tree)
    return found


def run(ctx):
    found = scan_writers()
    failures = []
    for rel, func, api, line in found:
        if (rel, func) not in WRITERS:
            failures.append({"file": rel, "function": func, "api": api, "line": line,
                             "problem": "writing API outside the functions that carry an effect contract", "replayed": False})
    ctx.bounded.append(Bounded("writing-api-scan", f"exhaustive syntactic scan of src/reuse: {len(found)} writing call sites in "
                               f"{len({(r, f) for r, f, _, _ in found})} functions", max(len(found), 1), failures,
                               "closed list of writing operations (DESIGN 3.5): a new site must come with an effect contract"))
    ctx.samples.append({"writing_sites": [f"{r}:{l} {f} {a}" for r, f, a, l in found]})
    e = engine(ctx, modules=("contracts.report", "contracts.cli", "contracts.annotate", "contracts.download"))
    verify_all(ctx, e, FUNCTIONS)
    assumed_contracts(ctx, e, "C15")
    for (rel, func), why in WRITERS.items():
        if why.startswith("assumed"):
            ctx.assume(f"{rel}:{func}: {why}")
    ctx.assume("a *named* symlink argument of annotate is followed by open(): the statement is ambiguous there (DESIGN section 5)")
    ctx.assume("read-only externals: is_binary, tomlkit.loads, debian Copyright, Jinja loaders, click.echo (stdout)")
    ctx.assume("spdx and supported-licenses callbacks are covered by the scan only (no writing API reachable except click.File for -o)")
