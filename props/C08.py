"""C08 - annotate changes nothing but the header."""
from props.common import engine, verify_all, lemmas, assumed_contracts
from props import annot

LEVEL = "proof"
EXPLANATION = ("String contracts on the real bodies of _find_first_spdx_comment (before + header + after is a partition of the text for "
               "ANY comment finder that returns an initial segment ending at a line end), place_header (what precedes the header is "
               "kept up to trailing white space, what follows byte for byte, only adjacent blank lines change) and detect_line_endings. "
               "Shebang extraction, the write-back with the detected line ending and the byte order mark are exercised by the bounded "
               "byte-comparison runs of the real command.")
FUNCTIONS = ["reuse.header._find_first_spdx_comment", "reuse.header.place_header", "reuse.extract.detect_line_endings"]
MODULES = ("contracts.report", "contracts.cli", "contracts.annotate", "contracts.copyright", "contracts.header")


def run(ctx):
    e = engine(ctx, modules=MODULES)
    from pyvc.driver import generic_replay
    for q in FUNCTIONS:
        ctx.verify(e, q, replay=generic_replay(q) if q != "reuse.header._find_first_spdx_comment" else None)
    assumed_contracts(ctx, e, "C08")
    ctx.bounded.append(annot.preservation(ctx.tier))
    ctx.assume("comment_at_first_character returns an initial segment of its argument that ends at a line end (holds when '\\n' is the only "
               "line boundary of the normalised text; str.splitlines also splits at form feeds and similar characters)")
    ctx.assume("_extract_shebang, find_and_replace_header's composition and the text-mode newline translation of open() are covered by the "
               "bounded runs only")
