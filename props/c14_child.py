"""Child process of the C14 bounded check: runs the real `reuse lint --json` and `reuse spdx` once under the hidden
parameters given on the command line (JSON), prints the raw outputs as JSON.  PYTHONHASHSEED is set by the parent."""
import glob
import json
import os
import random
import sys
import warnings

cfg = json.loads(sys.argv[1])
sys.path.insert(0, cfg["src"])
warnings.simplefilter("ignore")
os.environ["_SUPPRESS_DEP5_WARNING"] = "1"

perm = cfg.get("listing")          # None | "reverse" | int seed: order in which the file system enumerates entries
if perm is not None:
    _walk, _iglob, _listdir = os.walk, glob.iglob, os.listdir
    rnd = random.Random(perm if isinstance(perm, int) else 0)

    def reorder(xs):
        if perm == "reverse":
            xs.sort(reverse=True)
        else:
            xs.sort()
            rnd.shuffle(xs)

    def walk(top, *a, **k):
        for root, dirs, files in _walk(top, *a, **k):
            reorder(dirs)
            reorder(files)
            yield root, dirs, files        # the same list objects: pruning by the consumer still works

    def iglob(*a, **k):
        xs = list(_iglob(*a, **k))
        reorder(xs)
        return iter(xs)
    os.walk, glob.iglob = walk, iglob

workers = cfg.get("workers")
if workers:
    import multiprocessing as mp
    _pool = mp.Pool
    mp.Pool = lambda *a, **k: _pool(processes=workers)

from click.testing import CliRunner   # noqa: E402
from reuse.cli.main import main        # noqa: E402

os.chdir(cfg["cwd"])
base = (["--root", cfg["root"]] if cfg.get("root") is not None else []) + ([] if cfg.get("mp") else ["--no-multiprocessing"])
out = {}
for name, cmd in (("lint", ["lint", "--json"]), ("spdx", ["spdx"]),
                  ("spdx_concluded", ["spdx", "--add-license-concluded", "--creator-person", "P"])):
    r = CliRunner().invoke(main, base + cmd)
    out[name] = {"exit": r.exit_code, "output": r.stdout, "stderr": r.stderr,
                 "exception": repr(r.exception) if r.exception is not None and not isinstance(r.exception, SystemExit) else None}
print(json.dumps(out))
