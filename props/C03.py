"""C03 - exactly the covered files are examined."""
import os
import re
import shutil
import tempfile

from props.common import engine, lemmas, assumed_contracts
from pyvc.driver import Bounded, VERIF

LEVEL = "proof"
EXPLANATION = ("is_path_ignored's real body (10 + 5 + 1 compiled patterns, unrolled) is proved equivalent to the statement's "
               "decision formula: file names against the statement's name language (regular-language membership decided "
               "for all names by z3, lazily abstracted), directory names as a sandwich, subset/submodule/Meson/VCS clauses; "
               "a bounded enumeration runs the real iter_files over real directory trees.")

SCRATCH = os.path.join(VERIF, ".scratch")


def spec_excluded_file(name):
    return re.fullmatch(r"(LICENSE|LICENCE|COPYING)([-.].*)?|.*\.license|.*\.spdx(\.(rdf|json|xml|ya?ml))?|REUSE\.toml", name, re.S) is not None


def replay_name(model, vc):
    """Counter-model -> real tree -> real iter_files."""
    from reuse.covered_files import iter_files
    name = (model or {}).get("obs_name", {}).get("value")
    if not name or "/" in name or "\x00" in name or name in (".", ".."):
        return {"replayed": False, "note": f"counter-model name {name!r} cannot be materialised"}
    os.makedirs(SCRATCH, exist_ok=True)
    d = tempfile.mkdtemp(dir=SCRATCH)
    try:
        with open(os.path.join(d, name), "w") as fp:
            fp.write("content\n")
        seen = {p.name for p in iter_files(d)}
        examined = name in seen
        expected = not spec_excluded_file(name)
        return {"name": name, "as": "regular non-empty file at the project root", "examined_by_iter_files": examined,
                "covered_per_statement": expected, "replayed": examined != expected}
    finally:
        shutil.rmtree(d, ignore_errors=True)


NAMES = ["LICENSE", "LICENSE-MIT", "LICENSE.txt", "LICENSEX", "LICENCE", "LICENCE.md", "COPYING", "COPYING.md", "COPYINGX",
         "COPYING-GPL", "x.license", "x.licensex", "license", "a.spdx", "a.spdx.json", "a.spdx.rdf", "a.spdx.yml", "a.spdx.yaml",
         "a.spdx.xml", "a.spdxx", "a.spdxXjson", "a.spdx.txt", "REUSE.toml", "REUSE.tomlx", "xREUSE.toml", "src.py", ".gitignore",
         "LICENSES", ".reuse", ".git", ".hg", "subprojects", "LICENSESX", "build"]


def tree_enumeration(tier):
    """T2: real iter_files over real trees built from names on both sides of each rule, as file / empty file / directory /
    symlink, at depth 0 and 1, with and without the two include options (no VCS)."""
    from reuse.covered_files import iter_files
    os.makedirs(SCRATCH, exist_ok=True)
    root = tempfile.mkdtemp(dir=SCRATCH)
    failures, cases = [], 0
    try:
        expected = set()

        def add_file(rel, content="x\n"):
            p = os.path.join(root, rel)
            os.makedirs(os.path.dirname(p), exist_ok=True)
            with open(p, "w") as fp:
                fp.write(content)

        dir_excluded_lower = {"LICENSES", ".reuse", ".git", ".hg"}
        dir_excluded_upper = dir_excluded_lower | {".sl", ".jj", ".pijul", ".svn", ".bzr", "_darcs", "CVS"}
        must, may_skip = set(), set()
        for n in NAMES:
            # as a regular file at depth 0 and depth 1
            for prefix in ("", "sub/"):
                rel = f"{prefix}f_{n}/{n}" if False else f"{prefix}files/{n}"
                add_file(rel)
                if not spec_excluded_file(n):
                    must.add(rel)
            # as a directory holding one ordinary file
            rel = f"dirs/{n}/inner.py"
            add_file(rel)
            if n in dir_excluded_lower:
                pass
            elif n in dir_excluded_upper:
                may_skip.add(rel)
            else:
                must.add(rel)
            # empty file
            add_file(f"empty/{n}", content="")
        add_file("subprojects/sp/inner.c")          # Meson subproject: excluded unless the option is given
        add_file("subprojects/top.c")
        must.add("subprojects/top.c")
        os.symlink(os.path.join(root, "files/src.py"), os.path.join(root, "link.py"))
        for meson in (False, True):
            got = {os.path.relpath(p, root) for p in iter_files(root, include_meson_subprojects=meson)}
            want = set(must) | ({"subprojects/sp/inner.c"} if meson else set())
            cases += len(want) + len(got)
            for rel in sorted(want - got):
                failures.append({"kind": "covered file skipped", "path": rel, "include_meson_subprojects": meson})
            for rel in sorted(got - want - may_skip):
                failures.append({"kind": "excluded file examined", "path": rel, "include_meson_subprojects": meson})
    finally:
        shutil.rmtree(root, ignore_errors=True)
    return Bounded("tree-enumeration", f"{len(NAMES)} names on both sides of each rule x (file depth 0/1, directory, empty file) + symlink + "
                   "Meson subproject x 2 option values; no VCS", cases, failures, "real iter_files on a real scratch tree vs the statement")


def kf_tree_known(f):
    """bounded-check image of finding C03-extra-ignored-names"""
    base = os.path.basename(f.get("path", ""))
    return f.get("kind") == "covered file skipped" and re.fullmatch(r"\.git|\.hgtags|CAL-1.0.*|SHL-2.1.*", base) is not None \
        and "dirs/" not in f.get("path", "")


def run(ctx):
    e = engine(ctx, modules=("contracts.report", "contracts.cli", "contracts.annotate", "contracts.covered"))
    ctx.verify(e, "reuse.covered_files.is_path_ignored", replay=replay_name)
    # `annotate --recursive` examines exactly the covered files below the named directories (contract shared with C15)
    ctx.verify(e, "reuse.cli.annotate.all_paths")
    ctx.verify(e, "reuse.vcs.VCSStrategyGit.is_submodule")
    ctx.verify(e, "reuse.vcs.VCSStrategyGit.is_ignored")
    assumed_contracts(ctx, e, "C03")
    ctx.bounded.append(tree_enumeration(ctx.tier))
    ctx.weakest_pre.append("file and directory names free of newline characters ('$' matches before a final newline; '.' does not "
                           "match a newline): a file named 'COPYING\\n' is skipped")
    ctx.assume("Git's answer sets (ls-files -oi --exclude-standard --directory / config --get-regexp) are what check-ignore would say: "
               "Git is an external program with no contract in reach; proved: given the answers, the tool applies them to every path")
    ctx.assume("pathlib observers (name, parent, parts, resolve, is_relative_to), os.stat and os.walk are uninterpreted / assumed")
    ctx.trust("pyvc.rx translation of the compiled ignore patterns; z3 regular-expression theory")
