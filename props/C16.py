"""C16 - malformed input yields a diagnostic and a defined exit status, never a crash."""
import os
import shutil
import tempfile

from props.common import engine, verify_all, lemmas, assumed_contracts
from pyvc.driver import Bounded, VERIF

LEVEL = "proof"
EXPLANATION = ("Exception-flow contracts (raises clauses) on the real bodies of ReuseTOML.from_toml / from_file, ReuseDep5.from_file, "
               "ClickObj.project (only click.UsageError escapes) and the worker callable _MultiprocessingContainer.__call__ (nothing "
               "escapes; every result holds a report xor an error). The statement's finite grid 'each key x each TOML type' is "
               "enumerated completely through the real from_toml, and every subcommand is run on a set of malformed projects.")

FUNCTIONS = [
    "reuse.global_licensing.ReuseTOML.from_toml", "reuse.global_licensing.ReuseTOML.from_file",
    "reuse.global_licensing.ReuseDep5.from_file", "reuse.cli.common.ClickObj.project",
    "reuse.report._MultiprocessingContainer.__call__",
]

VALUES = {
    "str": '"x"', "empty_str": '""', "int": "5", "float": "1.5", "bool": "true", "date": "1979-05-27",
    "datetime": "1979-05-27T07:32:00Z", "list_str": '["a", "b"]', "list_empty": "[]", "list_int": "[1, 2]",
    "list_list": '[["a"]]', "list_table": "[{a = 1}]", "table": "{a = 1}", "list_mixed": '["a", 1]',
}
ITEM = {"path": '"**"', "precedence": '"closest"', "SPDX-FileCopyrightText": '"Jane"', "SPDX-License-Identifier": '"MIT"'}


def _doc(version=None, annotations_raw=None, item=None):
    out = []
    if version is not None:
        out.append(f"version = {version}")
    if annotations_raw is not None:
        out.append(f"annotations = {annotations_raw}")
    if item is not None:
        out.append("[[annotations]]")
        out += [f"{k} = {v}" for k, v in item.items() if v is not None]
    return "\n".join(out) + "\n"


def toml_shapes():
    """Exhaustive over the statement's grid: each key (version, annotations, path, precedence, SPDX-FileCopyrightText,
    SPDX-License-Identifier) given each TOML type, or left out."""
    import tomlkit
    from reuse.global_licensing import ReuseTOML
    from reuse.exceptions import GlobalLicensingParseError
    cases = []
    for name, v in VALUES.items():
        cases.append((f"version={name}", _doc(version=v, item=ITEM)))
        cases.append((f"annotations={name}", _doc(version="1", annotations_raw=v)))
        for key in ITEM:
            cases.append((f"{key}={name}", _doc(version="1", item={**ITEM, key: v})))
    cases.append(("version missing", _doc(item=ITEM)))
    for key in ITEM:
        cases.append((f"{key} missing", _doc(version="1", item={**ITEM, key: None})))
    cases.append(("single [annotations] table", 'version = 1\n[annotations]\npath = "x"\n'))
    failures = []
    for name, text in cases:
        tomlkit.loads(text)      # the harness only produces valid TOML
        try:
            ReuseTOML.from_toml(text, "the/REUSE.toml")
        except GlobalLicensingParseError as e:
            if e.source != "the/REUSE.toml":
                failures.append({"case": name, "toml": text, "problem": f"diagnostic does not name the file (source={e.source!r})", "replayed": True})
        except Exception as e:  # noqa: the property: nothing else escapes
            failures.append({"case": name, "toml": text, "problem": f"{type(e).__name__}: {e}"[:200], "replayed": True})
    return Bounded("toml-shapes", f"exhaustive: {len(cases)} documents = 6 keys x {len(VALUES)} TOML value shapes + absent keys",
                   len(cases), failures, "real ReuseTOML.from_toml (through tomlkit)")


GOOD_PY = "# SPDX-FileCopyrightText: Jane\n# SPDX-License-Identifier: MIT\nprint(1)\n"
DEP5_OK = ("Format: https://www.debian.org/doc/packaging-manuals/copyright-format/1.0/\nUpstream-Name: x\n\n"
           "Files: *\nCopyright: J\nLicense: MIT\n")
SCENARIOS = {
    "toml-invalid-utf8": {"REUSE.toml": b"version = 1\n\xff\xfe"},
    "toml-syntax": {"REUSE.toml": "version = = 1\n"},
    "toml-nested-ill-typed": {"sub/REUSE.toml": "version = 1\nannotations = 5\n", "sub/x.py": GOOD_PY},
    "toml-bad-expression": {"REUSE.toml": 'version = 1\n[[annotations]]\npath = "**"\nSPDX-License-Identifier = "MIT AND AND"\n'},
    "toml-duplicate-key-in-table": {"REUSE.toml": 'version = 1\n[[annotations]]\npath = "**"\nSPDX-License-Identifier = "MIT"\nSPDX-License-Identifier = "0BSD"\n'},
    "toml-empty-parentheses-expression": {"REUSE.toml": 'version = 1\n[[annotations]]\npath = "**"\nSPDX-License-Identifier = "()"\n'},
    "file-empty-parentheses-expression": {"b.py": "# SPDX-FileCopyrightText: J\n# SPDX-License-Identifier: ()\n"},
    "dep5-broken": {".reuse/dep5": "Format: x\n\nFiles: *\nCopyright\n"},
    "dep5-invalid-utf8": {".reuse/dep5": b"Format: \xff\xfe\n"},
    "dep5-and-toml": {".reuse/dep5": DEP5_OK, "REUSE.toml": "version = 1\n"},
    "file-latin1": {"b.py": b"# SPDX-FileCopyrightText: J\xe9r\xf4me\n# SPDX-License-Identifier: MIT\n"},
    "file-nul-bytes": {"b.py": b"# SPDX-License-Identifier: MIT\n\x00\x00\x00"},
    "file-unparseable-expression": {"b.py": "# SPDX-FileCopyrightText: J\n# SPDX-License-Identifier: MIT AND AND\n"},
    "file-very-long-line": {"b.py": "# " + "x" * 200000 + "\n# SPDX-License-Identifier: MIT\n"},
    "licenseref-text-latin1": {"LICENSES/LicenseRef-x.txt": b"caf\xe9", "b.py": "# SPDX-FileCopyrightText: J\n# SPDX-License-Identifier: LicenseRef-x\n"},
}
COMMANDS = [["lint"], ["lint", "-j"], ["lint", "-l"], ["lint", "-q"], ["lint-file", "a.py", "b.py"], ["spdx"],
            ["spdx", "--add-license-concluded", "--creator-person", "x"], ["annotate", "-c", "X", "-l", "MIT", "b.py"],
            ["annotate", "-c", "X", "-l", "MIT", "--skip-existing", "b.py"], ["annotate", "-c", "X", "-l", "MIT", "a.py", "b.py"],
            ["convert-dep5"], ["supported-licenses"], ["download", "LicenseRef-new"]]


def cli_malformed(tier):
    import warnings
    from click.testing import CliRunner
    from reuse.cli.main import main
    os.environ["_SUPPRESS_DEP5_WARNING"] = "1"
    warnings.simplefilter("ignore")
    os.makedirs(os.path.join(VERIF, ".scratch"), exist_ok=True)
    failures, runs = [], 0
    cwd = os.getcwd()
    for sname, extra in SCENARIOS.items():
        for cmd in COMMANDS:
            d = tempfile.mkdtemp(dir=os.path.join(VERIF, ".scratch"))
            try:
                files = {"a.py": GOOD_PY, "LICENSES/MIT.txt": "MIT text", "b.py": GOOD_PY, **extra}
                for rel, data in files.items():
                    p = os.path.join(d, rel)
                    os.makedirs(os.path.dirname(p), exist_ok=True)
                    with open(p, "wb") as fp:
                        fp.write(data if isinstance(data, bytes) else data.encode())
                os.chdir(d)
                try:
                    r = CliRunner().invoke(main, ["--root", d, "--no-multiprocessing"] + cmd)
                finally:
                    os.chdir(cwd)
                runs += 1
                crashed = r.exception is not None and not isinstance(r.exception, SystemExit)
                if crashed:
                    failures.append({"scenario": sname, "command": cmd, "problem": f"unhandled {type(r.exception).__name__}: {r.exception}"[:200], "replayed": True})
                elif r.exit_code not in (0, 1, 2):
                    failures.append({"scenario": sname, "command": cmd, "problem": f"exit status {r.exit_code}", "replayed": True})
                elif sname.startswith(("toml", "dep5")) and cmd[0] != "supported-licenses":
                    if r.exit_code != 2:
                        failures.append({"scenario": sname, "command": cmd, "problem": f"broken configuration but exit status {r.exit_code}", "replayed": True})
                    elif ("dep5" if sname.startswith("dep5") else "REUSE.toml") not in r.output:
                        failures.append({"scenario": sname, "command": cmd, "problem": "message does not name the configuration file", "replayed": True})
            finally:
                shutil.rmtree(d, ignore_errors=True)
    return Bounded("cli-malformed-projects", f"{len(SCENARIOS)} malformed projects x {len(COMMANDS)} command lines, real CLI in-process",
                   runs, failures, "exit status in {0,1,2}, no unhandled exception, configuration errors exit 2 and name the file")


def run(ctx):
    e = engine(ctx, modules=("contracts.report", "contracts.cli", "contracts.config"))
    verify_all(ctx, e, FUNCTIONS)
    assumed_contracts(ctx, e, "C16")
    ctx.bounded.append(toml_shapes())
    ctx.bounded.append(cli_malformed(ctx.tier))
    ctx.trust("raise sets of externals: tomlkit.loads raises TOMLKitError, debian Copyright raises Error/ValueError/UnicodeDecodeError, "
              "text-mode read raises UnicodeDecodeError, Path.open raises OSError")
    ctx.assume("Project.from_directory's raise set is taken from its docstring/body (RuntimeError for two LICENSES/ files resolving to "
               "the same identifier is project structure, outside the statement's scope of file *contents*)")
    ctx.assume("unreadable permissions and files vanishing during the run are not exercised (the sandbox runs as root)")
