"""C07 - what annotate writes, the linter reads back."""
from props.common import engine, verify_all, lemmas, assumed_contracts
from props import annot

LEVEL = "proof"
EXPLANATION = ("Contract on the real body of _create_new_header with the template and the comment style universally abstracted (any "
               "function of the sorted sequences / of the text): a header is returned only if the reader finds exactly the requested "
               "copyright notices and licence expressions in it, otherwise MissingReuseInfoError; create_header hands it the union of "
               "the old header's and the requested information; make_copyright_line builds the requested notices (C20). That reader and "
               "writer agree for every file type, style, option and value is exercised by the bounded round-trip runs of the real command.")
FUNCTIONS = ["reuse.header._create_new_header"]     # create_header is verified under C09, make_copyright_line under C20
MODULES = ("contracts.report", "contracts.cli", "contracts.annotate", "contracts.copyright", "contracts.header")


def run(ctx):
    e = engine(ctx, modules=MODULES)
    verify_all(ctx, e, FUNCTIONS)
    assumed_contracts(ctx, e, "C07")
    ctx.bounded.append(annot.roundtrip(ctx.tier))
    ctx.assume("template.render is ANY function of the template and the three sorted sequences; style.create_comment ANY function of "
               "the style, the text and the flag (may raise CommentCreateError); the reader is a ghost function of the text")
    ctx.assume("contributors are not part of the read-back guard in the code (a template may drop them, C09): their round trip is "
               "covered by the bounded runs with templates that render them")
    ctx.assume("table entries the lookup can never reach ('.nim.cfg': Path.suffix is '.cfg') are refused with a usage error; the "
               "property speaks about annotate succeeding, so this is noted, not reported")
