"""C02 - licence, copyright and contributor tags are read exactly, in any comment syntax."""
import itertools
import os
import re
import shutil
import tempfile

import z3

from props.common import engine, verify_all, lemmas, assumed_contracts
from pyvc.driver import Bounded, VERIF

LEVEL = "other"
EXPLANATION = ("Deductive part: the terminator language of the real compiled _END_PATTERN is proved equal (regular-language equality, all "
               "strings) to 'any sequence of the multi-line terminators of all comment styles and the three special endings', built "
               "from the real style table on every run - so no terminator is missing, none is order-dependent. The exactness of the "
               "captured values (style x form x decoration x value) and the 4 KiB window / snippet / unparseable-expression clauses are "
               "bounded enumerations through the real reader (labelled bounded); capture groups of backtracking regular expressions "
               "are outside what the installed solvers decide.")

TAGS_L = "SPDX-License-Identifier:"
TAGS_K = "SPDX-FileContributor:"
COPY_PREFIXES = ["SPDX-FileCopyrightText:", "SPDX-SnippetCopyrightText:", "Copyright", "Copyright (C)", "Copyright (c)", "Copyright ©", "©",
                 "SPDX-FileCopyrightText: (C)", "SPDX-FileCopyrightText: Copyright ©"]
LICENCES = ["MIT", "GPL-3.0-or-later", "MIT OR 0BSD", "(MIT AND ISC) OR Apache-2.0+", "GPL-2.0-only WITH Classpath-exception-2.0", "LicenseRef-My.Own-1",
            "LicenseRef-Poland", "LicenseRef-ACME"]     # values ending in letters that also occur in a comment marker (dnl, REM)
HOLDERS = ["Jane Doe <jane@example.com>", "2020 Example GmbH & Co., e.V.", "2017-2019 Jérôme 山田 <https://example.com/~j>", "2001 - 2003, O'Neil (FSFE)"]
CONTRIBUTORS = ["Joe Bloggs <joe@example.org>", "A. Nother & Co.", "Jane Doe https://example.com/"]


def end_pattern_language(ctx):
    """VCs: L(real _END_PATTERN) == (t1 | ... | tn)* with the terminators read from the real style table"""
    from pyvc import rx
    from pyvc.state import VC
    from reuse import extract
    from reuse.comment import _all_style_classes
    real = rx.Lang(extract._END_PATTERN).fullmatch_lang()     # '$' at the edge is handled by fullmatch_lang
    ends = sorted({s.MULTI_LINE.end for s in _all_style_classes() if s.MULTI_LINE.end})
    parts = [z3.Re(z3.StringVal(t)) for t in ends]
    ws = z3.Star(rx.union(rx.rng(a, b) for a, b in rx.category_ranges(rx.C.CATEGORY_SPACE)))
    sl = z3.Star(rx.ch("/"))
    parts += [z3.Concat(rx.ch('"'), ws, sl, rx.ch(">")), z3.Concat(rx.ch("'"), ws, sl, rx.ch(">")), z3.Concat(rx.ch("]"), ws, z3.Re(z3.StringVal("::")))]
    spec = z3.Star(z3.Union(*parts))
    w = z3.String("w")
    ctx.add_vc(VC("C02/_END_PATTERN/accepts-every-sequence-of-terminators", [z3.InRe(w, spec)], z3.InRe(w, real), inputs={"w": w},
                  note=f"every sequence of {len(ends)} style terminators and 3 special endings is stripped"))
    ctx.add_vc(VC("C02/_END_PATTERN/accepts-nothing-else", [z3.InRe(w, real)], z3.InRe(w, spec), inputs={"w": w},
                  note="nothing but terminators is stripped from the end of a value"))
    return ends


# ---- bounded: value exactness ------------------------------------------------------------------------------------------------
def forms(style):
    """(label, prefix, suffix) line shapes a comment of this style can take around 'TAG value'"""
    out = []
    if style.SINGLE_LINE:
        p = style.SINGLE_LINE + style.INDENT_AFTER_SINGLE
        out.append(("single-line", p, ""))
        out.append(("single-line, indented with tab", "\t" + p, ""))
        out.append(("single-line, trailing blanks", p, "  \t"))
        out.append(("single-line, doubled marker", style.SINGLE_LINE + p, ""))
    if style.MULTI_LINE.start and style.MULTI_LINE.end:
        st, mid, en = style.MULTI_LINE
        out.append(("inline multi-line", st + " ", " " + en))
        out.append(("inline multi-line, no blank before the terminator", st + " ", en))
        out.append(("block multi-line, middle line", "\n".join([st, style.INDENT_BEFORE_MIDDLE + mid + style.INDENT_AFTER_MIDDLE]), "\n" + style.INDENT_BEFORE_END + en))
        out.append(("block multi-line, value then terminator", st + "\n" + style.INDENT_BEFORE_MIDDLE + mid + style.INDENT_AFTER_MIDDLE, " " + en))
        out.append(("two stacked terminators", st + " ", " " + en + en))
        if mid:
            frame = mid
            out.append(("ASCII-art frame", "|" + frame + "  ", "  " + frame[::-1] + "|"))
    return out


def read(text):
    from reuse.extract import extract_reuse_info
    info = extract_reuse_info(text)
    return set(info.copyright_lines), {str(e) for e in info.spdx_expressions}, set(info.contributor_lines)


def value_exactness(tier):
    from reuse.comment import _all_style_classes, EmptyCommentStyle, UncommentableCommentStyle
    from reuse.extract import _LICENSING
    failures, cases = [], 0
    styles = [s for s in _all_style_classes() if s not in (EmptyCommentStyle, UncommentableCommentStyle)]
    tags = [("licence", TAGS_L + " " + v, (set(), {str(_LICENSING.parse(v))}, set())) for v in LICENCES]
    tags += [("copyright", p + " " + h, ({p + " " + h}, set(), set())) for p in COPY_PREFIXES for h in (HOLDERS if tier == "thorough" else HOLDERS[:3])]
    tags += [("contributor", TAGS_K + " " + v, (set(), set(), {v})) for v in CONTRIBUTORS]
    if tier != "thorough":
        tags = [t for i, t in enumerate(tags) if t[0] != "copyright" or i % 2 == 0]
    for style in styles:
        for label, pre, suf in forms(style):
            for kind, body, want in tags:
                if style.MULTI_LINE.end and style.MULTI_LINE.end in body:
                    continue      # the writer refuses such a value in a multi-line comment of this style
                for le in (["\n", "\r\n"] if tier == "thorough" else ["\n"]):
                    cases += 1
                    text = ("first line" + "\n" + pre + body + suf + "\n" + "last line\n").replace("\n", le)
                    try:
                        got = read(text.replace("\r\n", "\n"))
                    except Exception as e:  # noqa
                        got = f"{type(e).__name__}: {e}"
                    if got != want:
                        failures.append({"style": style.__name__, "form": label, "kind": kind, "line": pre + body + suf,
                                         "problem": f"read {got!r}, written {want!r}", "replayed": True})
        if sum(1 for f in failures if not (f["form"] == "ASCII-art frame" and f["kind"] == "copyright")) > 60:
            break
    seen, uniq = set(), []
    for f in failures:
        k = (f["form"], f["kind"], f["style"] if f["form"] != "ASCII-art frame" else None)
        if k not in seen:
            seen.add(k)
            uniq.append(f)
    uniq.sort(key=lambda f: f["form"] == "ASCII-art frame")
    return Bounded("value-exactness", f"{len(styles)} styles x up to 10 line shapes (single-line, indented, trailing blanks, inline and block "
                   f"multi-line, stacked terminators, ASCII-art frame) x {len(tags)} tag lines (licence expressions, 9 copyright tag "
                   "spellings x holders with years / punctuation / non-ASCII, contributors)", cases, uniq[:14],
                   "real extract_reuse_info on a three-line text")


# ---- bounded: window, snippet marker, unparseable expressions ----------------------------------------------------------------
def window_and_errors(tier):
    from reuse.extract import reuse_info_of_file
    failures, cases = [], 0
    os.makedirs(os.path.join(VERIF, ".scratch"), exist_ok=True)
    d = tempfile.mkdtemp(dir=os.path.join(VERIF, ".scratch"))
    tag = b"# SPDX-License-Identifier: MIT\n"
    ctag = b"# SPDX-FileCopyrightText: Jane\n"
    fillers = {"ascii-lf": b"# filler line\n", "ascii-crlf": b"# filler line\r\n", "non-ascii": "# füll 山田\n".encode("utf-8"),
               "cr-only": b"# filler\r", "long-line": b"#" + b"x" * 700 + b"\n"}

    def info_of(data, name="f.py"):
        p = os.path.join(d, name)
        with open(p, "wb") as fp:
            fp.write(data)
        info = reuse_info_of_file(p, p, d)
        return {str(e) for e in info.spdx_expressions}, set(info.copyright_lines), set(info.contributor_lines)
    try:
        for fname, unit in fillers.items():
            for offset in (4096 - len(tag) - 40, 4096 - len(tag), 4096, 4096 + 1, 4096 + 40, 9000):
                # put the licence tag so that it starts exactly at `offset` (pad the last filler line with '#')
                n = offset // len(unit)
                head = unit * n
                pad = offset - len(head)
                if pad:
                    if pad < 2:
                        head = unit * (n - 1)
                        pad = offset - len(head)
                    head += b"#" * (pad - 1) + b"\n"
                assert len(head) == offset, (len(head), offset)
                for snippet in (False, True):
                    cases += 1
                    data = ctag + head[len(ctag):] + tag + (b"# SPDX-SnippetBegin\n# SPDX-SnippetEnd\n" if snippet else b"tail\n")
                    start = len(ctag + head[len(ctag):])
                    inside = start + len(tag) <= 4096
                    beyond = start >= 4096
                    lic, cop, _ = info_of(data)
                    case = {"filler": fname, "tag_starts_at_byte": start, "snippet_marker": snippet}
                    if cop != {"SPDX-FileCopyrightText: Jane"}:
                        failures.append(dict(case, problem=f"copyright at the top read as {sorted(cop)}", replayed=True))
                    elif (inside or snippet) and lic != {"MIT"}:
                        failures.append(dict(case, problem=f"licence tag {'inside the first 4096 bytes' if inside else 'in a file with a snippet marker'} not read: {sorted(lic)}", replayed=True))
                    elif beyond and not snippet and lic:
                        failures.append(dict(case, problem=f"licence tag starting at byte {start} (beyond the 4096-byte window, no snippet marker) was read: {sorted(lic)}", replayed=True))
        # the snippet marker anywhere in the file lifts the window: marker placed around every plausible chunk boundary
        for boundary in (4096, 8192, 16384, 32768, 65536, 131072, 262144, 1048576):
            for delta in list(range(-17, 2)) if tier == "thorough" or boundary in (4096, 65536) else (-17, -9, -1, 0):
                cases += 1
                start = boundary + delta
                marker = b"# SPDX-SnippetBegin\n"
                head = ctag + b"# filler line\n" * ((5000 - len(ctag)) // 14) + tag      # licence tag beyond byte 4096
                if start < len(head):
                    continue
                body = head + b"#" * (start - len(head) - 1) + b"\n" + marker + b"# SPDX-SnippetEnd\ntail\n"
                lic, cop, _ = info_of(body)
                if lic != {"MIT"}:
                    failures.append({"marker_starts_at_byte": start + 2, "file_size": len(body), "replayed": True,
                                     "problem": f"file contains an SPDX snippet marker but the licence tag beyond the 4096-byte window was not read: {sorted(lic)}"})
        for name, data, want in (
                ("bad.py", b"# SPDX-FileCopyrightText: Jane\n# SPDX-License-Identifier: MIT AND AND\n# SPDX-FileContributor: K\n", (set(), set(), set())),
                ("bad2.py", b"# SPDX-FileCopyrightText: Jane\n# SPDX-License-Identifier: MIT\n# SPDX-License-Identifier: (\n", (set(), set(), set())),
                ("bad3.py", b"# SPDX-FileCopyrightText: Jane\n# SPDX-License-Identifier: ()\n", (set(), set(), set())),
                ("good.py.license", b"SPDX-FileCopyrightText: Jane\nSPDX-License-Identifier: MIT\n", ({"MIT"}, {"SPDX-FileCopyrightText: Jane"}, set())),
                ("crlf.py", b"# SPDX-FileCopyrightText: Jane\r\n# SPDX-License-Identifier: MIT\r\n", ({"MIT"}, {"SPDX-FileCopyrightText: Jane"}, set())),
                ("cr.py", b"# SPDX-FileCopyrightText: Jane\r# SPDX-License-Identifier: MIT\r", ({"MIT"}, {"SPDX-FileCopyrightText: Jane"}, set())),
                ("ignored.py", b"# REUSE-IgnoreStart\n# SPDX-License-Identifier: 0BSD\n# REUSE-IgnoreEnd\n# SPDX-FileCopyrightText: Jane\n# SPDX-License-Identifier: MIT\n",
                 ({"MIT"}, {"SPDX-FileCopyrightText: Jane"}, set()))):
            cases += 1
            try:
                got = info_of(data, name)
            except Exception as e:  # noqa
                got = f"{type(e).__name__}: {e}"
            if got != want:
                failures.append({"file": name, "content": data.decode("utf-8", "replace"), "problem": f"read {got!r}, expected {want!r}", "replayed": True})
    finally:
        shutil.rmtree(d, ignore_errors=True)
    return Bounded("window-and-errors", "licence tag placed at 6 byte offsets around the 4096-byte boundary x 5 filler kinds (LF, CRLF, non-ASCII, "
                   "CR, long lines) x with / without an SPDX snippet marker; snippet marker at every offset -17..+1 around 4 KiB .. 1 MiB boundaries; unparseable expressions; .license, CRLF, CR and ignore-block files",
                   cases, failures[:12], "real reuse_info_of_file on real files")


def kf_copyright_frame(f):
    """known finding C02-copyright-ascii-frame: the mirrored-frame strip exists for licence and contributor tags only"""
    return f.get("form") == "ASCII-art frame" and f.get("kind") == "copyright"


def run(ctx):
    ends = end_pattern_language(ctx)
    ctx.functions = [f"reuse.extract._END_PATTERN (compiled pattern, {len(ends)} style terminators read from reuse.comment)"]
    ctx.bounded.append(value_exactness(ctx.tier))
    ctx.bounded.append(window_and_errors(ctx.tier))
    ctx.assume("Python's re is the calculus of pyvc.rx; code points <= U+2FFFF")
    ctx.assume("capture groups (lazy value before the terminators, the mirrored-frame strip of find_spdx_tag) are decided by the bounded "
               "enumeration only; values ending in a comment terminator or starting with the comment marker of a frame are outside the value grammar")
    ctx.assume("a tag line that straddles byte 4096 is cut (its value may be read truncated): only tags entirely inside or entirely "
               "beyond the window are asserted")
    ctx.assume("filter_ignore_block is C12's obligation; copyright tag building is C20's")
