"""Shared bounded harness for the annotate family (C07 - C10): the real `reuse annotate` (click CliRunner, in process) on
scratch projects, read back with the tool's own reader (Project.reuse_info_of).  Everything here is a bounded stand-in."""
import datetime
import itertools
import os
import shutil
import tempfile
import warnings
from pathlib import Path

from pyvc.driver import Bounded, VERIF

SCRATCH = os.path.join(VERIF, ".scratch")
BOM = "﻿"


class Sandbox:
    """one scratch project directory; files given as {relative path: str | bytes}"""

    def __init__(self, files=None):
        os.makedirs(SCRATCH, exist_ok=True)
        warnings.simplefilter("ignore")
        os.environ["_SUPPRESS_DEP5_WARNING"] = "1"
        self.d = tempfile.mkdtemp(dir=SCRATCH, prefix="ann_")
        for rel, data in (files or {}).items():
            self.write(rel, data)

    def __enter__(self):
        return self

    def __exit__(self, *a):
        shutil.rmtree(self.d, ignore_errors=True)

    def path(self, rel):
        return os.path.join(self.d, rel)

    def write(self, rel, data):
        p = self.path(rel)
        os.makedirs(os.path.dirname(p), exist_ok=True)
        with open(p, "wb") as fp:
            fp.write(data if isinstance(data, bytes) else data.encode("utf-8"))

    def read(self, rel):
        with open(self.path(rel), "rb") as fp:
            return fp.read()

    def exists(self, rel):
        return os.path.lexists(self.path(rel))

    def snapshot(self):
        out = {}
        for dp, dn, fn in os.walk(self.d):
            for f in fn:
                p = os.path.join(dp, f)
                with open(p, "rb") as fp:
                    out[os.path.relpath(p, self.d)] = fp.read()
        return out

    def annotate(self, args):
        from click.testing import CliRunner
        from reuse.cli.main import main
        cwd = os.getcwd()
        os.chdir(self.d)
        try:
            r = CliRunner().invoke(main, ["--root", self.d, "annotate"] + list(args))
        finally:
            os.chdir(cwd)
        crashed = r.exception is not None and not isinstance(r.exception, SystemExit)
        return r.exit_code, r.output, (repr(r.exception) if crashed else None)

    def read_back(self, rel):
        """what the linter attributes to the file: (copyright lines, expression texts, contributor lines)"""
        from reuse.project import Project
        project = Project.from_directory(Path(self.d))
        infos = project.reuse_info_of(Path(self.d) / rel)
        c, l, k = set(), set(), set()
        for info in infos:
            c |= set(info.copyright_lines)
            l |= {str(e) for e in info.spdx_expressions}
        # lint does not report contributors (and drops a file result that holds nothing else): they are read with the
        # same reader (extract_reuse_info) from the file that carries the header
        from reuse.extract import extract_reuse_info
        holder = rel + ".license" if self.exists(rel + ".license") else rel
        try:
            k = set(extract_reuse_info(self.read(holder).decode("utf-8", "replace").replace("\r\n", "\n")).contributor_lines)
        except Exception:  # noqa: unparseable expression in the file
            k = set()
        return c, l, k


def read_whole(sb, rel):
    """the same reader on the whole file (no 4 KiB window): for headers that have outgrown the window"""
    from reuse.extract import extract_reuse_info
    info = extract_reuse_info(sb.read(rel).decode("utf-8", "replace").replace("\r\n", "\n"))
    return set(info.copyright_lines), {str(e) for e in info.spdx_expressions}, set(info.contributor_lines)


def this_year():
    return str(datetime.date.today().year)


def requested(holders, licenses, contributors, prefix="spdx", year="default"):
    """the information a run requests, built with the real (C20-verified) builder"""
    from reuse.copyright import make_copyright_line
    from reuse.extract import _LICENSING
    y = this_year() if year == "default" else year
    return ({make_copyright_line(h, y, prefix) for h in holders}, {str(_LICENSING.parse(l)) for l in licenses}, set(contributors))


def args_for(holders, licenses, contributors):
    out = []
    for h in holders:
        out += ["--copyright", h]
    for l in licenses:
        out += ["--license", l]
    for k in contributors:
        out += ["--contributor", k]
    return out


def style_tables():
    from reuse.comment import EXTENSION_COMMENT_STYLE_MAP, FILENAME_COMMENT_STYLE_MAP, NAME_STYLE_MAP
    return EXTENSION_COMMENT_STYLE_MAP, FILENAME_COMMENT_STYLE_MAP, NAME_STYLE_MAP


# ---- C07 ---------------------------------------------------------------------------------------------------------------
HOLDERS = ["Jane Doe <jane@example.com>", "Smith & Sons \"Ltd\" O'Brien", "Jérôme 山田, e.V."]
CONTRIB = ["Joe <joe@example.org>", "A & B"]
LICS = ["MIT OR 0BSD", "GPL-3.0-or-later WITH Classpath-exception-2.0"]
TEMPLATE_FULL = ("{% for copyright_line in copyright_lines %}\n{{ copyright_line }}\n{% endfor %}\nCustom banner\n"
                 "{% for contributor_line in contributor_lines %}\nSPDX-FileContributor: {{ contributor_line }}\n{% endfor %}\n"
                 "{% for expression in spdx_expressions %}\nSPDX-License-Identifier: {{ expression }}\n{% endfor %}\n")
TEMPLATE_COMMENTED = ("{% for copyright_line in copyright_lines %}\n;; {{ copyright_line }}\n{% endfor %}\n"
                      "{% for contributor_line in contributor_lines %}\n;; SPDX-FileContributor: {{ contributor_line }}\n{% endfor %}\n"
                      "{% for expression in spdx_expressions %}\n;; SPDX-License-Identifier: {{ expression }}\n{% endfor %}\n")
TEMPLATE_NO_LICENCE = "{% for copyright_line in copyright_lines %}\n{{ copyright_line }}\n{% endfor %}\n"
TEMPLATE_NO_COPYRIGHT = "{% for expression in spdx_expressions %}\nSPDX-License-Identifier: {{ expression }}\n{% endfor %}\n"
TEMPLATES = {".reuse/templates/full.jinja2": TEMPLATE_FULL, ".reuse/templates/pre.commented.jinja2": TEMPLATE_COMMENTED,
             ".reuse/templates/nolicence.jinja2": TEMPLATE_NO_LICENCE, ".reuse/templates/nocopyright.jinja2": TEMPLATE_NO_COPYRIGHT}


def one_roundtrip(failures, label, files, target, extra_args, holders, licenses, contributors, prefix="spdx", year="default",
                  expect_sidecar=None, may_fail=False, must_fail=False, check_contributors=True):
    """annotate once; on success the linter must read back exactly the requested information in addition to what was there"""
    with Sandbox(files) as sb:
        before = sb.snapshot()
        try:
            c0, l0, k0 = sb.read_back(target)
        except Exception:  # noqa: unreadable before (e.g. unparseable expression): nothing to add to
            c0, l0, k0 = set(), set(), set()
        code, out, crash = sb.annotate(list(extra_args) + args_for(holders, licenses, contributors) + [target])
        case = {"case": label, "file": target, "args": list(extra_args), "holders": holders, "licenses": licenses,
                "contributors": contributors, "content": (files.get(target) if isinstance(files.get(target), str) else repr(files.get(target)))}
        if crash:
            failures.append(dict(case, problem=f"crash: {crash}", replayed=True))
            return
        if code != 0:
            after = sb.snapshot()
            changed = sorted(k for k in set(before) | set(after) if before.get(k) != after.get(k))
            if changed and not (len(changed) == 1 and changed[0].endswith(".license") and after.get(changed[0]) == b""):
                failures.append(dict(case, problem=f"exit status {code} but files changed: {changed}", output=out[-300:], replayed=True))
            elif not may_fail and not must_fail:
                failures.append(dict(case, problem=f"annotate failed (exit {code}) on a file it should handle", output=out[-300:], replayed=True))
            return
        if must_fail:
            failures.append(dict(case, problem="reported success although the requested information cannot be in the header", output=out[-300:], replayed=True))
            return
        rc, rl, rk = requested(holders, licenses, contributors, prefix, year)
        c1, l1, k1 = sb.read_back(target)
        want = (c0 | rc, l0 | rl, k0 | rk)
        got = (c1, l1, k1)
        names = ("copyright notices", "licence expressions", "contributors")
        for n, w, g in zip(names, want, got):
            if n == "contributors" and not check_contributors:
                continue
            if w != g:
                failures.append(dict(case, problem=f"{n} read back {sorted(g)} but requested/declared {sorted(w)}", output=out[-200:],
                                     written=sb.read(target + ".license" if sb.exists(target + ".license") else target).decode("utf-8", "replace")[:400],
                                     replayed=True))
                return
        if expect_sidecar is not None and sb.exists(target + ".license") != expect_sidecar:
            failures.append(dict(case, problem=f".license sidecar present={sb.exists(target + '.license')} expected={expect_sidecar}", replayed=True))


def roundtrip(tier):
    ext_map, name_map, styles = style_tables()
    from reuse.comment import UncommentableCommentStyle, EmptyCommentStyle
    failures, cases = [], 0
    body = "line one BODY1\n\n  indented BODY2\n"
    # A. the complete file-type tables
    for table, mk in ((ext_map, lambda e: "file" + e), (name_map, lambda n: n)):
        for key, style in sorted(table.items(), key=lambda kv: kv[0]):
            name = mk(key)
            for content in (["", body] if tier == "thorough" else [body]):
                cases += 1
                unc = style is UncommentableCommentStyle
                from reuse.comment import get_comment_style
                # the property speaks about annotate *succeeding*: a table entry the lookup never reaches ('.nim.cfg':
                # Path.suffix is '.cfg') is refused with a usage error and nothing is written - noted, not a violation
                one_roundtrip(failures, "file-type table", {name: content}, name, [], HOLDERS[:1], LICS[:1], CONTRIB[:1],
                              expect_sidecar=unc, may_fail=get_comment_style(name) is None)
        if len(failures) > 12:
            break
    # B. every --style value, single / multi
    for sname, style in sorted(styles.items()):
        for mode in ([], ["--multi-line"], ["--single-line"]):
            cases += 1
            ok = (mode == [] or (mode == ["--multi-line"] and style.can_handle_multi()) or (mode == ["--single-line"] and style.can_handle_single()))
            one_roundtrip(failures, "forced style", {"forced.txt": body}, "forced.txt", ["--style", sname] + mode, HOLDERS[:2], LICS, CONTRIB,
                          may_fail=not ok)
    # C. prefixes x year options
    from reuse.copyright import _COPYRIGHT_PREFIXES
    for prefix in _COPYRIGHT_PREFIXES:
        for yargs, year in (([], "default"), (["--year", "2017"], "2017"), (["--year", "2019", "--year", "2017"], "2017 - 2019"), (["--exclude-year"], None)):
            for name in (["a.py", "b.c", "c.html"] if tier == "thorough" else ["a.py", "c.html"]):
                cases += 1
                one_roundtrip(failures, "prefix and year", {name: body}, name, ["--copyright-prefix", prefix] + yargs, HOLDERS, LICS[:1], [],
                              prefix=prefix, year=year)
    # D. sidecars, binary and unrecognised files
    for name, content, extra, sidecar, may_fail in (
            ("a.py", body, ["--force-dot-license"], True, False), ("img.png", b"\x89PNG\r\n\x1a\n\x00\x00", [], True, False),
            ("data.unknownext", body, ["--fallback-dot-license"], True, False), ("data.unknownext", body, [], None, True),
            ("data.unknownext", body, ["--skip-unrecognised"], None, True), ("doc.json", "{}\n", [], True, False),
            ("a.py", body, ["--fallback-dot-license"], False, False)):
        cases += 1
        if extra == ["--skip-unrecognised"]:
            continue   # success without a header is that option's documented meaning
        one_roundtrip(failures, "sidecar selection", {name: content}, name, extra, HOLDERS[:1], LICS[:1], CONTRIB[:1],
                      expect_sidecar=sidecar, may_fail=may_fail)
    # E. templates
    for name in ("a.py", "b.c", "c.html", "d.el"):
        for tname, kw in (("full", {}), ("nolicence", {"must_fail": True}), ("nocopyright", {"must_fail": True})):
            for mode in ([], ["--multi-line"]) if name in ("b.c", "c.html") else ([],):
                cases += 1
                one_roundtrip(failures, "custom template", {name: body, **TEMPLATES}, name, ["--template", tname] + mode, HOLDERS, LICS, CONTRIB, **kw)
    cases += 1
    one_roundtrip(failures, "commented template", {"d.el": body, **TEMPLATES}, "d.el", ["--template", "pre"], HOLDERS, LICS, CONTRIB)
    # F. pre-existing declarations
    pre = {"a.py": "# SPDX-FileCopyrightText: 2001 Old Holder\n#\n# SPDX-License-Identifier: ISC\n\nzz BODY1\n",
           "b.c": "/*\n * SPDX-FileCopyrightText: 2001 Old Holder\n * SPDX-FileContributor: Old Contributor\n *\n * SPDX-License-Identifier: ISC\n */\n\nint x; /* BODY1 */\n",
           "c.html": "<!--\nSPDX-FileCopyrightText: 2001 Old Holder\n\nSPDX-License-Identifier: ISC\n-->\n\n<p>BODY1</p>\n",
           "e.py": "#!/usr/bin/env python3\n# SPDX-FileCopyrightText: 2001 Old Holder\n\nprint('BODY1')\n"}
    for name, content in pre.items():
        for extra in ([], ["--multi-line"] if name != "a.py" and name != "e.py" else [], ["--merge-copyrights"]):
            cases += 1
            one_roundtrip(failures, "pre-existing header", {name: content}, name, extra, HOLDERS[:2], LICS[:1], CONTRIB[:1])
    # G. requests whose notice the reader cannot return verbatim: either refused (nothing written) or read back exactly
    awkward = ["Jane Doe -->", "Example GmbH {R&D #}", "ACME (Research *)", "Jane Doe :)", "Team */", "X ]::", "Quote \">", "2020 Jane Doe   "]
    for name in ("a.py", "b.c", "c.html", "d.el", "e.jinja2", "f.ml"):
        for h in awkward:
            for extra in ([], ["--force-dot-license"]):
                cases += 1
                one_roundtrip(failures, "holder ending in a comment terminator", {name: body}, name, extra, [h], LICS[:1], [], may_fail=True)
    # files that are not valid UTF-8 with non-ASCII requests: refused, or read back exactly
    for name, data in (("latin1.py", b"# caf\xe9 au lait\nzz = 1  # BODY1\n"), ("latin1.c", b"/* na\xefve */\nint zz; /* BODY1 */\n")):
        for extra, hs in (([], ["Jos\u00e9 Garc\u00eda"]), (["--copyright-prefix", "symbol"], ["Jane Doe"]), ([], ["Jane Doe"])):
            cases += 1
            one_roundtrip(failures, "file that is not valid UTF-8", {name: data}, name, extra, hs, LICS[:1], [],
                          prefix=(extra[1] if extra else "spdx"), may_fail=True)
    tpl_extra = {".reuse/templates/extra.jinja2": "{% for copyright_line in copyright_lines %}\n{{ copyright_line }} and contributors\n{% endfor %}\n"
                                                  "{% for expression in spdx_expressions %}\nSPDX-License-Identifier: {{ expression }}\n{% endfor %}\n",
                 ".reuse/templates/literal.jinja2": "SPDX-FileCopyrightText: 1999 Template Owner\n{% for copyright_line in copyright_lines %}\n{{ copyright_line }}\n{% endfor %}\n"
                                                    "{% for expression in spdx_expressions %}\nSPDX-License-Identifier: {{ expression }}\n{% endfor %}\n"}
    for name in ("a.py", "b.c"):
        for tname in ("extra", "literal"):
            cases += 1
            one_roundtrip(failures, "template that alters the notice line", {name: body, **tpl_extra}, name, ["--template", tname], HOLDERS[:1], LICS[:1], [], may_fail=True)
    return Bounded("annotate-roundtrip", "complete extension and file-name tables (default options); every --style x {default, --multi-line, "
                   "--single-line}; 10 prefixes x 4 year options; sidecar / binary / unrecognised; custom, commented and information-dropping "
                   "templates; pre-existing headers; holders with < > & ' \" and non-ASCII; holders ending in comment terminators and templates altering the notice "
                   "line (refused or read back exactly)", cases, failures[:12],
                   "real `reuse annotate`, read back with Project.reuse_info_of")


# ---- C08 ---------------------------------------------------------------------------------------------------------------
def bodies(style_cls, comment):
    """(label, pre, header, post) with every body line carrying a BODYn marker; `comment` renders a comment in the file's style"""
    hdr = comment("SPDX-FileCopyrightText: 2001 Old Holder\n\nSPDX-License-Identifier: ISC")
    note = comment("BODY9 an ordinary remark")
    foreign = "// BODY8 foreign remark" if not (style_cls.SINGLE_LINE or "").startswith("//") else "# BODY8 foreign remark"
    out = [
        ("empty", "", "", ""),
        ("one line", "", "", "zz BODY1\n"),
        ("no final newline", "", "", "zz BODY1"),
        ("leading blank lines", "", "", "\n\nzz BODY1\n"),
        ("indented first line", "", "", "    indented BODY1\nnext BODY2\n"),
        ("blank-line runs and trailing blanks", "", "", "zz BODY1\n\n\n\nyy BODY2   \n\txx BODY3\n\n"),
        ("own remark first", "", "", note + "\n\nzz BODY1\n"),
        ("foreign remark first", "", "", foreign + "\nzz BODY1\n"),
        ("header at top", "", hdr + "\n", "\nzz BODY1\n  more BODY2\n"),
        ("header at top, no blank line", "", hdr + "\n", "zz BODY1\n"),
        ("header only", "", hdr + "\n", ""),
        ("header in the middle", "first BODY1\n  second BODY2\n\n", hdr + "\n", "\nthird BODY3\n"),
        ("header in the middle, indented first line", "  first BODY1\nsecond BODY2   \n\n", hdr + "\n", "third BODY3\n"),
        ("header in the middle, blank first line", "\n\nfirst BODY1\n\n", hdr + "\n", "\n\n  third BODY3"),
        ("header at the end", "first BODY1\n\n", hdr + "\n", ""),
    ]
    if style_cls.SINGLE_LINE and "\n" not in comment("SPDX-License-Identifier: ISC"):
        one = comment("SPDX-License-Identifier: ISC")
        out.append(("header text also occurs earlier as a trailing remark", "zz = 1  " + one + " BODY1\n\tyy BODY2 " + one + "\n\n", one + "\n", "\nxx BODY3\n"))
    for sb in style_cls.SHEBANGS or []:
        line = sb + ("/bin/sh BODY7" if sb == "#!" else " BODY7 ?>" if sb.startswith("<?") else " BODY7")
        out.append((f"first-line declaration {sb}", "", "", line + "\nzz BODY1\n"))
        out.append((f"first-line declaration {sb} + header", "", "", line + "\n" + hdr + "\n\nzz BODY1\n"))
        out.append((f"byte order mark + {sb}", "", "", BOM + line + "\nzz BODY1\n"))
        later = sb + (" BODY5 later line ?>" if sb.startswith("<?") else " BODY5 later line")
        out.append((f"{sb} again on a later line", "", "", line + "\nzz BODY1\n" + later + "\nyy BODY2\n"))
        out.append((f"{sb} again on a later line + header", "", "", line + "\n" + hdr + "\n\nzz BODY1\n\n" + later + "\nyy BODY2\n"))
    out.append(("byte order mark", "", "", BOM + "zz BODY1\n"))
    return out


def marker_lines(text):
    return [l for l in text.split("\n") if "BODY" in l]


def check_preservation(label, original, result, le, pre, post, failures, case):
    """original/result: decoded texts as on disk"""
    def fail(msg):
        failures.append(dict(case, problem=msg, original=original[:300], result=result[:500], replayed=True))
        return False
    # line-ending convention (a text without any line ending has none to keep)
    if le not in original:
        le = "\n"
    elif le == "\r\n":
        stripped = result.replace("\r\n", "")
        if "\n" in stripped or "\r" in stripped:
            return fail("CRLF file contains a bare LF or CR after annotate")
    elif le == "\r":
        if "\n" in result:
            return fail("CR file contains LF after annotate")
    elif le == "\n" and "\r" in result and "\r" not in original:
        return fail("LF file contains CR after annotate")
    o, r = original.replace(le, "\n"), result.replace(le, "\n")
    if o.startswith(BOM) and not r.startswith(BOM):
        return fail("byte order mark is no longer the first character")
    o, r = o.lstrip(BOM), r.lstrip(BOM)
    om, rm = marker_lines(o), marker_lines(r)
    # every line outside the header is kept byte-for-byte and in order (trailing white space of the line directly in front
    # of the header may go)
    if len(om) != len(rm):
        return fail(f"lines outside the header changed: {om} -> {rm}")
    last_pre = marker_lines(pre)[-1] if marker_lines(pre) else None
    for a, b in zip(om, rm):
        if a != b and not (a == last_pre and a.rstrip() == b):
            return fail(f"line changed: {a!r} -> {b!r}")
    # blank lines between two kept lines that are not adjacent to the header are kept
    def gaps(t, exclude):
        ls, out, prev, gap, dirty = t.split("\n"), [], None, 0, False
        for l in ls:
            if "BODY" in l:
                if prev is not None:
                    out.append((prev, l.rstrip(), None if dirty else gap))
                prev, gap, dirty = l.rstrip(), 0, False
            elif l.strip() == "":
                gap += 1
            else:
                dirty = True      # header / comment lines in between: this gap is adjacent to the header
        return [g for g in out if g[2] is not None]
    og = {(a, b): n for a, b, n in gaps(o, None)}
    rg = {(a, b): n for a, b, n in gaps(r, None)}
    pre_m, post_m = marker_lines(pre), marker_lines(post)
    boundary = (pre_m[-1].rstrip() if pre_m else None, post_m[0].rstrip() if post_m else None)
    for k, n in og.items():
        if k == boundary:
            continue
        if k in rg and rg[k] != n:
            return fail(f"blank lines between {k[0]!r} and {k[1]!r}: {n} -> {rg[k]}")
    # first-line declaration stays first
    first = o.lstrip(BOM).split("\n")[0]
    if "BODY7" in first and r.lstrip(BOM).split("\n")[0] != first:
        return fail(f"first-line declaration {first!r} is no longer the first line")
    # final newline
    if post.strip() and (o.endswith("\n") != r.endswith("\n")):
        return fail(f"final newline: had={o.endswith(chr(10))} has={r.endswith(chr(10))}")
    return True


def preservation(tier):
    _, _, styles = style_tables()
    failures, cases = [], 0
    names = sorted(styles) if tier == "thorough" else ["python", "c", "css", "html", "jinja", "julia", "lisp", "tex", "f", "bat", "vim", "ml", "xquery"]
    names = [n for n in names if n in styles]
    for sname in names:
        style = styles[sname]
        for multi in ([False, True] if style.can_handle_single() and style.can_handle_multi() else [False]):
            comment = (lambda t, s=style, m=multi: s.create_comment(t, force_multi=m))
            for label, pre, hdr, post in bodies(style, comment):
                for le in (["\n", "\r\n", "\r"] if tier == "thorough" or sname in ("python", "c", "html") else ["\n"]):
                    for replace in (True, False):
                        original = (pre + hdr + post).replace("\n", le)
                        cases += 1
                        case = {"style": sname, "multi": multi, "body": label, "line_ending": repr(le), "mode": "replace" if replace else "--no-replace"}
                        with Sandbox({"f.txt": original}) as sb:
                            args = ["--style", sname] + (["--multi-line"] if multi else []) + ([] if replace else ["--no-replace"])
                            code, out, crash = sb.annotate(args + args_for(["New Holder"], ["MIT"], []) + ["f.txt"])
                            if crash:
                                failures.append(dict(case, problem=f"crash: {crash}", original=original[:300], replayed=True))
                                continue
                            if code != 0:
                                if sb.read("f.txt").decode("utf-8") != original:
                                    failures.append(dict(case, problem="annotate failed but the file changed", replayed=True))
                                continue
                            result = sb.read("f.txt").decode("utf-8")
                            if replace:
                                check_preservation(label, original, result, le, pre, post, failures, case)
                            else:
                                # --no-replace: a new block at the top, everything else (the old header included) is outside it
                                check_preservation(label, original, result, le, "", pre + hdr + post, failures, case)
                if len(failures) > 40:
                    break
    # one representative per (body, problem kind)
    seen, uniq = set(), []
    for f in failures:
        k = (f["body"], f["problem"].split(":")[0], f["mode"])
        if k not in seen:
            seen.add(k)
            uniq.append(f)
    return Bounded("annotate-preservation", f"{len(names)} styles x single/multi x ~20 body shapes (indentation, blank-line runs, remarks, "
                   "existing header at the top / in the middle / at the end, first-line declarations, byte order mark, no final newline) x "
                   "LF/CRLF/CR x replace / --no-replace", cases, uniq[:14], "real `reuse annotate`; bytes before and after compared line by line")


# ---- C09 ---------------------------------------------------------------------------------------------------------------
STEPS = [
    (["--copyright", "Alice", "--license", "MIT"], {}),
    (["--copyright", "Bob <bob@example.com>", "--year", "2015"], {}),
    (["--contributor", "Carol"], {}),
    (["--license", "0BSD", "--copyright-prefix", "string-c", "--copyright", "Dave"], {}),
    (["--copyright", "Alice", "--year", "2012", "--merge-copyrights"], {"merge": True}),
    (["--license", "ISC", "--multi-line"], {"multi": True}),
    (["--contributor", "Erin & Co", "--copyright", "Bob <bob@example.com>", "--year", "2019", "--merge-copyrights"], {"merge": True}),
    (["--copyright", "Frank", "--no-replace", "--exclude-year"], {}),
    (["--license", "MIT", "--skip-existing"], {"skip": True}),
    (["--copyright", "Grace", "--template", "full"], {}),
    # requests that are textual prefixes of what earlier steps wrote
    (["--license", "Apache-2.0 WITH LLVM-exception", "--contributor", "Caroline Smithson"], {}),
    (["--copyright", "Bob", "--year", "2015"], {}),
    (["--contributor", "Caro"], {}),
    (["--license", "Apache-2.0"], {}),
]
# histories that are always run, whatever the sampling of the permutations
FIXED_HISTORIES = [[1, 11], [10, 13], [10, 12], [2, 12, 11], [10, 13, 12]]
STARTS = {
    "empty": "", "code": "x = 1  BODY1\n",
    "foreign header": "# Copyright (C) 1999 Legacy Corp\n# SPDX-License-Identifier: Apache-2.0\n# SPDX-FileContributor: Zed\n\ny = 2 BODY1\n",
    # a header longer than the reader's 4 KiB window (as accumulated by many earlier runs)
    "long header": "".join(f"# SPDX-FileCopyrightText: 20{i % 25:02d} Holder Number {i:03d} <holder{i:03d}@example.com>\n" for i in range(75))
                   + "#\n# SPDX-License-Identifier: ISC\n\nz = 3 BODY1\n",
}


def holders_of(lines):
    from props.C20 import parse_notice
    out = {}
    for l in lines:
        p = parse_notice(l)
        if p:
            out.setdefault(p[2], []).extend(p[1])
    return out


def accumulation(tier):
    failures, cases = [], 0
    n = 4 if tier == "thorough" else 3
    seqs = list(itertools.permutations(range(len(STEPS)), n))
    if tier != "thorough":
        seqs = seqs[::23]
    else:
        seqs = seqs[::19]        # 24 024 permutations of length 4 over 14 steps: every 19th, on 2 file types x 3 starts
    for fname, multi_ok in (("f.py", False), ("g.c", True)):
        for sname, start in STARTS.items():
            if fname == "g.c":
                start = start.replace("# ", "// ").replace("#\n", "//\n")
            for seq in [tuple(h) for h in FIXED_HISTORIES] + (list(seqs) if sname != "long header" else [(0,), (2,), (3,)]):
                if not multi_ok and any(STEPS[i][1].get("multi") for i in seq):
                    continue
                cases += 1
                with Sandbox({fname: start, **TEMPLATES}) as sb:
                    history = []
                    reader = (lambda name, _sb=sb: read_whole(_sb, name)) if sname == "long header" else sb.read_back
                    try:
                        c, l, k = reader(fname)
                    except Exception:  # noqa
                        c, l, k = set(), set(), set()
                    for i in seq:
                        args, flags = STEPS[i]
                        history.append(args)
                        code, out, crash = sb.annotate(args + [fname])
                        case = {"file": fname, "start": sname, "history": history}
                        if crash:
                            failures.append(dict(case, problem=f"crash: {crash}", replayed=True))
                            break
                        if code != 0:
                            continue
                        c1, l1, k1 = reader(fname)
                        if flags.get("skip") and "Skipped" in out:
                            rc = rl = rk = set()
                        else:
                            hs = [args[j + 1] for j, a in enumerate(args) if a == "--copyright"]
                            ls = [args[j + 1] for j, a in enumerate(args) if a == "--license"]
                            ks = [args[j + 1] for j, a in enumerate(args) if a == "--contributor"]
                            prefix = args[args.index("--copyright-prefix") + 1] if "--copyright-prefix" in args else "spdx"
                            year = None if "--exclude-year" in args else (args[args.index("--year") + 1] if "--year" in args else "default")
                            rc, rl, rk = requested(hs, ls, ks, prefix, year)
                        problem = None
                        if not (l | rl) <= l1:
                            problem = f"licence expressions lost: had {sorted(l)}, requested {sorted(rl)}, now {sorted(l1)}"
                        elif not (k | rk) <= k1:
                            problem = f"contributors lost: had {sorted(k)}, requested {sorted(rk)}, now {sorted(k1)}"
                        elif flags.get("merge"):
                            hb, ha = holders_of(c | rc), holders_of(c1)
                            for h, ys in hb.items():
                                if h not in ha:
                                    problem = f"holder {h!r} lost by --merge-copyrights: {sorted(c1)}"
                                elif ys and (not ha[h] or min(ha[h]) > min(ys) or max(ha[h]) < max(ys)):
                                    problem = f"holder {h!r}: years {sorted(ys)} before, {sorted(ha[h])} after --merge-copyrights"
                        elif not (c | rc) <= c1:
                            problem = f"copyright notices lost: had {sorted(c)}, requested {sorted(rc)}, now {sorted(c1)}"
                        if problem:
                            failures.append(dict(case, problem=problem, content=sb.read(fname).decode("utf-8", "replace")[:500], replayed=True))
                            break
                        c, l, k = c1, l1, k1
                if len(failures) > 12:
                    break
    seen, uniq = set(), []
    for f in failures:
        key = (f["problem"].split(":")[0], tuple(f["history"][-1]))
        if key not in seen:
            seen.add(key)
            uniq.append(f)
    return Bounded("annotate-accumulation", f"command sequences of length {n} drawn from {len(STEPS)} steps (holders, licences, contributors, "
                   "prefixes, years, --multi-line, --no-replace, --merge-copyrights, --skip-existing, custom template) on 2 file types x 3 "
                   "starting contents; the declared information is compared with a running model after every step", cases, uniq[:12],
                   "real `reuse annotate` sequences, read back with Project.reuse_info_of")


# ---- C10 ---------------------------------------------------------------------------------------------------------------
def idempotence(tier):
    ext_map, name_map, styles = style_tables()
    from reuse.comment import UncommentableCommentStyle
    failures, cases = [], 0
    infos = [(["Jane Doe"], ["MIT"], []), ([], [], ["Only Contributor"]), (["A", "B"], ["MIT", "0BSD"], ["K"])]
    starts = {"empty": "", "code": "zz BODY1\n"}

    def twice(label, files, target, extra, info, n=2):
        nonlocal cases
        cases += 1
        with Sandbox(files) as sb:
            args = list(extra) + args_for(*info) + [target]
            code, out, crash = sb.annotate(args)
            case = {"case": label, "file": target, "args": args, "content": files[target] if isinstance(files[target], str) else repr(files[target])}
            if crash or code != 0:
                return
            real = target + ".license" if sb.exists(target + ".license") else target
            first = sb.read(real)
            for k in range(n - 1):
                code, out, crash = sb.annotate(args)
                if crash or code != 0:
                    failures.append(dict(case, problem=f"run {k + 2} with identical arguments failed: exit {code} {crash}", output=out[-200:], replayed=True))
                    return
            second = sb.read(real)
            if first != second:
                failures.append(dict(case, problem=f"file differs after run {n} with identical arguments", first=first.decode("utf-8", "replace")[:400],
                                     second=second.decode("utf-8", "replace")[:600], replayed=True))

    for sname, style in sorted(styles.items()):
        for multi in ([[], ["--multi-line"]] if style.can_handle_single() and style.can_handle_multi() else [[]]):
            for info in infos:
                for stl, start in starts.items():
                    bs = [start]
                    if style.SHEBANGS and stl == "code":
                        sbang = style.SHEBANGS[0]
                        bs.append(sbang + ("/bin/sh" if sbang == "#!" else " x ?>" if sbang.startswith("<?") else " x") + "\n" + start)
                    if stl == "code" and style.can_handle_single():
                        bs.append(style.create_comment("BODY2 a remark in the same style") + "\n\n" + start)
                    for b in bs:
                        twice("every style", {"f.txt": b}, "f.txt", ["--style", sname] + multi, info, n=3 if tier == "thorough" else 2)
    for name in ("a.py", "b.c"):
        twice("merge on the first run", {name: "zz BODY1\n"}, name, ["--merge-copyrights"],
              (["Copyright 2015 Jane", "Copyright 2019 Jane", "SPDX-FileCopyrightText: 2001 Other"], ["MIT"], []), n=3)
    lit = {".reuse/templates/litcontrib.jinja2": "{% for copyright_line in copyright_lines %}\n{{ copyright_line }}\n{% endfor %}\n"
                                                 "SPDX-FileContributor: Template Person\n"
                                                 "{% for contributor_line in contributor_lines %}\nSPDX-FileContributor: {{ contributor_line }}\n{% endfor %}\n"
                                                 "{% for expression in spdx_expressions %}\nSPDX-License-Identifier: {{ expression }}\n{% endfor %}\n"}
    twice("template with a literal contributor line", {"a.py": "zz BODY1\n", **lit}, "a.py", ["--template", "litcontrib"], infos[0], n=2)
    for table, mk in ((ext_map, lambda e: "file" + e), (name_map, lambda n: n)):
        keys = sorted(table)
        for key in (keys if tier == "thorough" else keys[::4]):
            twice("file-type table", {mk(key): "zz BODY1\n"}, mk(key), [], infos[0])
    for extra in (["--force-dot-license"], ["--template", "full"], ["--copyright-prefix", "string-c", "--year", "2011"], ["--exclude-year"],
                  ["--merge-copyrights"], ["--template", "pre"]):
        for name in ("a.py", "d.el"):
            if extra == ["--template", "pre"] and name != "d.el":
                continue     # a pre-commented template only fits the style it was written in
            twice("options", {name: "zz BODY1\n", **TEMPLATES}, name, extra, infos[2], n=3)
    seen, uniq = set(), []
    for f in failures:
        key = (f["case"], tuple(a for a in f["args"] if a.startswith("--") or a in styles), f["problem"].split(":")[0])
        if key not in seen:
            seen.add(key)
            uniq.append(f)
    return Bounded("annotate-idempotence", "every --style x single/multi x 3 requests (full, contributor only, several) x bodies (empty, code, "
                   "first-line declaration, remark in the same style); the file-type tables; option combinations; 2 (quick) / 3 (thorough) "
                   "identical runs", cases, uniq[:14], "real `reuse annotate` run repeatedly, bytes compared")
