"""C01 - lint verdict equals compliance with the REUSE specification."""
from props.common import engine, verify_all, lemmas, assumed_contracts

LEVEL = "proof"
EXPLANATION = ("Contracts on the real bodies of the report getters, ProjectReport.generate (4 loops, invariants), "
               "FileReport.generate (3 nested loops), is_compliant and the lint callback; the lemma `verdict` proves "
               "compliant_spec(report) <=> clauses (a)-(d) of the statement over the per-file results; lint's exit status "
               "is proved to be 0 exactly when those clauses hold, on every output branch.")

FUNCTIONS = [
    "reuse._util._strip_plus_from_identifier", "reuse._util._add_plus_to_identifier",
    "reuse.report.ProjectReport.used_licenses", "reuse.report.ProjectReport.unused_licenses",
    "reuse.report.ProjectReport.files_without_licenses", "reuse.report.ProjectReport.files_without_copyright",
    "reuse.report.ProjectReport.is_compliant", "reuse.report.ProjectReport.generate",
    "reuse.report.FileReport.generate", "reuse.cli.lint.lint",
]


def run(ctx):
    e = engine(ctx)
    verify_all(ctx, e, FUNCTIONS)
    lemmas(ctx, e, "C01")
    assumed_contracts(ctx, e, "C01")
    ctx.assume("which files are examined (covered files) is C03's obligation; what each file declares is C02/C04's: "
               "here they enter as the ghost functions results_of(project) and infos_of(project, path)")
    ctx.assume("copyright lines handed to FileReport.generate are non-empty strings (precondition; established by the extractor, C02)")
    ctx.assume("an exception object stored in a worker result is truthy (no __bool__/__len__ on exception classes)")
    ctx.assume("dict insertion order is not modelled; sets are extensional; integers are mathematical")
    ctx.trust("license_expression: Licensing.license_keys(expr) enumerates a finite set keys(expr); parse/simplify/render uninterpreted")
    ctx.trust("hashlib.md5 / random.getrandbits: uninterpreted (the lint verdict does not depend on them)")
