"""C14 - results do not depend on scheduling, enumeration order, hash seed, working directory or root spelling."""
import concurrent.futures
import json
import os
import re
import shutil
import subprocess
import sys
import tempfile

from props.common import engine, verify_all, lemmas, assumed_contracts
from pyvc.driver import Bounded, VERIF

LEVEL = "proof"
EXPLANATION = ("Determinism as a functional property. Proved: Project.reuse_info_of, NestedReuseTOML.reuse_info_of and the worker callable "
               "(FileReport.generate / ProjectReport.generate: under C01) are functions of (project, file) with a frame - no heap object and no collection held by a frozen value reachable "
               "from their inputs is mutated (so the answer for one file cannot depend on which files were processed before it, "
               "in the same process or another); ProjectReport.generate's result is stated over sets and maps (no order); the "
               "random / time sources reach only chk_sum / spdx_id under lint. Bounded: the real `reuse lint --json` and `reuse "
               "spdx` in child processes over hash seeds, worker counts, directory-listing orders, working directories and root "
               "spellings; all normalised outputs of one tree must agree.")

# FileReport.generate and ProjectReport.generate (results stated over sets and maps, fresh result objects, frames) are
# verified under C01 with the same contracts; they are not verified a second time here: with the heavier, ghost-quantified
# contract of Project.reuse_info_of loaded, one of their obligations sits at the solvers' time limit and was reported as
# undischarged on a loaded machine (a false alarm of the machinery, see DESIGN 9.3).
FUNCTIONS = ["reuse.project.Project.reuse_info_of", "reuse.global_licensing.NestedReuseTOML.reuse_info_of",
             "reuse.report._MultiprocessingContainer.__call__"]

H = "# SPDX-FileCopyrightText: 2020 Jane\n# SPDX-License-Identifier: MIT\n"
DEP5 = ("Format: https://www.debian.org/doc/packaging-manuals/copyright-format/1.0/\nUpstream-Name: x\n\n"
        "Files: doc/*\nCopyright: 2019 Doc Writers\nLicense: CC0-1.0\n\nFiles: doc/img/*\nCopyright: 2018 Artist\nLicense: MIT\n")
TREES = {
    "toml-hierarchy": {
        "git": True,
        "files": {
            "REUSE.toml": 'version = 1\n[[annotations]]\npath = "**/*.dat"\nSPDX-FileCopyrightText = "2021 Data Corp"\nSPDX-License-Identifier = "CC0-1.0"\n'
                          '[[annotations]]\npath = "pkg/**"\nprecedence = "aggregate"\nSPDX-FileCopyrightText = "Pkg Authors"\nSPDX-License-Identifier = "MIT"\n'
                          '[[annotations]]\npath = "pk2/**"\nSPDX-FileCopyrightText = "Outer Both"\nSPDX-License-Identifier = "0BSD"\n',
            "pk2/REUSE.toml": 'version = 1\n[[annotations]]\npath = "a_first.txt"\nSPDX-FileCopyrightText = "Inner Copyright Only"\n',
            "pk2/a_first.txt": "one\n", "pk2/b_second.txt": "two\n", "pk2/z/later.txt": "three\n",
            "pkg/REUSE.toml": 'version = 1\n[[annotations]]\npath = "inner/**"\nprecedence = "override"\nSPDX-FileCopyrightText = "Inner"\nSPDX-License-Identifier = "0BSD"\n',
            "a_first.dat": "SPDX-FileCopyrightText: Only Copyright\n", "b_second.dat": "1 2 3\n", "z/later.dat": "4 5 6\n", "z/z/latest.dat": "SPDX-License-Identifier: MIT\n",
            "pkg/m.py": H, "pkg/n.py": "print(1)\n", "pkg/inner/o.py": H, "pkg/inner/deep/p.txt": "text\n", "top.py": H, "nothing.txt": "no info\n",
            "LICENSES/MIT.txt": "m", "LICENSES/CC0-1.0.txt": "c", "LICENSES/0BSD.txt": "b", "LICENSES/Unused-1.0.txt": "u"},
    },
    "dep5": {
        "git": False,
        "files": {".reuse/dep5": DEP5, "doc/a.md": "a\n", "doc/b.md": H, "doc/img/i.svg": "<svg/>\n", "src/c.c": "/* SPDX-FileCopyrightText: C\n * SPDX-License-Identifier: GPL-3.0-or-later\n */\n",
                  "src/d.h": "int d;\n", "LICENSES/MIT.txt": "m", "LICENSES/CC0-1.0.txt": "c"},
    },
    "terminators-and-sidecars": {
        "git": True,
        "files": {"t1.html": "<!-- /* SPDX-FileCopyrightText: Jane */-->\n<!-- SPDX-License-Identifier: MIT -->\n",
                  "t2.j2": "{# SPDX-FileCopyrightText: Joe #}-->\n{# SPDX-License-Identifier: MIT #}\n",
                  "t3.ml": "(* SPDX-FileCopyrightText: Ann *)*/\n(* SPDX-License-Identifier: 0BSD OR MIT *)\n",
                  "t4.c": "/* SPDX-FileCopyrightText: Bob -->*/\n/* SPDX-License-Identifier: MIT AND 0BSD */\n",
                  "img.png": b"\x89PNG", "img.png.license": "SPDX-FileCopyrightText: Art\nSPDX-License-Identifier: CC-BY-4.0\n",
                  "sub dir/with space.py": H, "LICENSES/MIT.txt": "m", "LICENSES/0BSD.txt": "b", "LICENSES/LicenseRef-x.txt": "x"},
    },
    "git-submodule-and-ignored": {
        "git": True,
        "files": {".gitmodules": '[submodule "vendor/lib"]\n\tpath = vendor/lib\n\turl = https://example.invalid/lib.git\n',
                  ".gitignore": "build/\n*.tmp\n", "vendor/lib/x.c": "int x;\n", "vendor/lib/deep/y.c": "int y;\n", "vendor/own.c": "/* SPDX-FileCopyrightText: V\n * SPDX-License-Identifier: MIT\n */\n",
                  "build/out.o": "obj", "src/a.py": H, "src/b.tmp": "scratch", "LICENSES/MIT.txt": "m"},
    },
    "many-files": {
        "git": False,
        "files": dict([("REUSE.toml", 'version = 1\n[[annotations]]\npath = "d*/**"\nSPDX-FileCopyrightText = "Bulk"\nSPDX-License-Identifier = "MIT"\n'),
                       ("LICENSES/MIT.txt", "m"), ("LICENSES/ISC.txt", "i")]
                      + [(f"d{i % 5}/f{i:02d}.txt", ("SPDX-FileCopyrightText: Own %d\n" % i) if i % 3 == 0 else
                          ("SPDX-License-Identifier: ISC\n" if i % 3 == 1 else "plain\n")) for i in range(45)]),
    },
}


def configurations(tier, tree):
    base = dict(seed=0, mp=False, workers=None, listing=None, cwd="outside", root="abs")
    cfgs = [dict(base)]
    for s in ([1, 2, 3, 7] if tier == "thorough" else [1, 2]):
        cfgs.append(dict(base, seed=s))
    for w in ([1, 2, 3, 16] if tier == "thorough" else [2, 16]):
        cfgs.append(dict(base, mp=True, workers=w))
    for l in (["reverse", 1, 2, 3] if tier == "thorough" else ["reverse", 1]):
        cfgs.append(dict(base, listing=l))
        cfgs.append(dict(base, listing=l, mp=True, workers=3, seed=5))
    cfgs.append(dict(base, cwd="root", root=None))
    cfgs.append(dict(base, cwd="root", root="."))
    cfgs.append(dict(base, cwd="root", root="./LICENSES/../."))
    cfgs.append(dict(base, cwd="outside", root="rel"))
    cfgs.append(dict(base, cwd="outside", root="abs/"))
    if tree["git"]:
        cfgs.append(dict(base, cwd="inside", root=None))
    cfgs.append(dict(base, cwd="inside", root="abs"))
    cfgs.append(dict(base, cwd="inside", root=".."))
    return cfgs


def write_tree(root, tree):
    for rel, data in tree["files"].items():
        p = os.path.join(root, rel)
        os.makedirs(os.path.dirname(p), exist_ok=True)
        with open(p, "wb") as fp:
            fp.write(data if isinstance(data, bytes) else data.encode())
    if tree["git"]:
        subprocess.run(["git", "init", "-q", root], check=True, capture_output=True)


def run_child(root, cfg):
    inside = next(d for d in sorted(os.listdir(root)) if os.path.isdir(os.path.join(root, d)) and d not in (".git", ".reuse", "LICENSES"))
    cwd = {"outside": os.path.dirname(root), "root": root, "inside": os.path.join(root, inside)}[cfg["cwd"]]
    spelled = {None: None, "abs": root, "abs/": root + "/", "rel": os.path.basename(root)}.get(cfg["root"], cfg["root"])
    child = dict(src="/repo/src", cwd=cwd, root=spelled, mp=cfg["mp"], workers=cfg["workers"], listing=cfg["listing"])
    env = dict(os.environ, PYTHONHASHSEED=str(cfg["seed"]), PYTHONPATH="")
    r = subprocess.run([sys.executable, os.path.join(VERIF, "props", "c14_child.py"), json.dumps(child)], env=env,
                       capture_output=True, text=True, timeout=600)
    if r.returncode != 0:
        return {"error": (r.stderr or r.stdout)[-600:]}
    return json.loads(r.stdout.strip().splitlines()[-1])


def sort_rec(x):
    if isinstance(x, dict):
        return {k: sort_rec(v) for k, v in sorted(x.items())}
    if isinstance(x, list):
        return sorted((sort_rec(v) for v in x), key=lambda v: json.dumps(v, sort_keys=True))
    return x


def norm_spdx(text):
    """sections sorted, random namespace and timestamp dropped"""
    lines = [l for l in text.split("\n") if not l.startswith(("DocumentNamespace: ", "Created: "))]
    sections, cur = [], []
    for l in lines:
        if l == "":
            sections.append(cur)
            cur = []
        else:
            cur.append(l)
    sections.append(cur)
    head = sections[0]
    rel = sorted(l for l in head if l.startswith("Relationship: "))
    head = [l for l in head if not l.startswith("Relationship: ")]
    return [head, rel] + sorted(s for s in sections[1:] if s)


def respell(root_real):
    """paths echoed in lint's non_compliant lists carry the root as the user spelled it: map them to root-relative form"""
    def fix(p):
        if not isinstance(p, str):
            return p
        if not os.path.isabs(p) and os.path.lexists(os.path.join(root_real, p)) and ".." not in p.split("/") and not p.startswith("./"):
            return p        # already relative to the root
        q = os.path.realpath(p if os.path.isabs(p) else os.path.join(respell.cwd, p))
        if q == root_real or q.startswith(root_real + os.sep):
            return os.path.relpath(q, root_real)
        return p
    return fix


def norm_lint(text, fix=None):
    d = json.loads(text)
    if fix is not None:
        nc = d.get("non_compliant", {})
        for k, v in nc.items():
            if k in ("unused_licenses", "deprecated_licenses"):
                continue        # identifiers, not paths
            if isinstance(v, list):
                nc[k] = [fix(x) for x in v]
            elif isinstance(v, dict):
                nc[k] = {kk: [fix(x) for x in vv] if isinstance(vv, list) else vv for kk, vv in v.items()}
    return sort_rec(d)


def compare(tname, root, cfg, base_out, out):
    """-> list of failure dicts for one configuration against the baseline run of the same tree"""
    fails = []
    if "error" in out:
        return [{"tree": tname, "configuration": cfg, "problem": "child process failed: " + out["error"], "replayed": True}]
    for key in ("lint", "spdx", "spdx_concluded"):
        a, b = base_out[key], out[key]
        if b["exception"] or a["exit"] != b["exit"]:
            fails.append({"tree": tname, "configuration": cfg, "output": key, "replayed": True,
                          "problem": f"exit status {b['exit']} (baseline {a['exit']}) exception {b['exception']}"})
            continue
        if key == "lint":
            try:
                if norm_lint(a["output"]) == norm_lint(b["output"]):
                    continue
            except ValueError:
                fails.append({"tree": tname, "configuration": cfg, "output": key, "kind": "content", "replayed": True,
                              "problem": f"lint --json output is not JSON: baseline {a['output'][:200]!r} / this run {b['output'][:300]!r}"})
                continue
            root_real = os.path.realpath(root)
            cwd = {"outside": os.path.dirname(root), "root": root}.get(cfg["cwd"])
            if cwd is None:
                cwd = os.path.join(root, next(d for d in sorted(os.listdir(root)) if os.path.isdir(os.path.join(root, d)) and d not in (".git", ".reuse", "LICENSES")))
            respell.cwd = os.path.dirname(root)
            na = norm_lint(a["output"], respell(root_real))
            respell.cwd = cwd
            nb = norm_lint(b["output"], respell(root_real))
            if na == nb:
                fails.append({"tree": tname, "configuration": cfg, "output": key, "kind": "path-spelling-only", "replayed": True,
                              "problem": "lint --json differs only in how the paths of the non_compliant lists are spelled (they echo the root as given)"})
            else:
                diff = [k for k in nb if na.get(k) != nb.get(k)]
                fails.append({"tree": tname, "configuration": cfg, "output": key, "kind": "content", "replayed": True,
                              "problem": f"lint --json differs from the baseline run in {diff}: "
                                         + json.dumps({k: [na.get(k), nb.get(k)] for k in diff})[:700]})
        else:
            na, nb = norm_spdx(a["output"]), norm_spdx(b["output"])
            if na != nb:
                d = [s for s in nb if s not in na][:2] + [s for s in na if s not in nb][:2]
                fails.append({"tree": tname, "configuration": cfg, "output": key, "kind": "content", "replayed": True,
                              "problem": "SPDX document differs from the baseline run: " + json.dumps(d)[:700]})
    return fails


def kf_path_spelling(f):
    """known finding C14-root-spelling-echo: only the spelling of paths in lint's non_compliant lists follows the root argument"""
    return f.get("kind") == "path-spelling-only" and f.get("output") == "lint"


def hidden_parameters(tier):
    os.makedirs(os.path.join(VERIF, ".scratch"), exist_ok=True)
    failures, runs = [], 0
    for tname, tree in TREES.items():
        # outside /verif on purpose: a project without VCS must not discover /verif's own git repository as its root
        top = tempfile.mkdtemp(prefix="c14_")
        root = os.path.join(top, "proj")
        try:
            os.makedirs(root)
            write_tree(root, tree)
            cfgs = configurations(tier, tree)
            with concurrent.futures.ThreadPoolExecutor(max_workers=8) as ex:
                outs = list(ex.map(lambda c: run_child(root, c), cfgs))
            runs += len(cfgs)
            base = outs[0]
            if "error" in base:
                failures.append({"tree": tname, "configuration": cfgs[0], "problem": "baseline child failed: " + base["error"], "replayed": True})
                continue
            for cfg, out in zip(cfgs[1:], outs[1:]):
                failures += compare(tname, root, cfg, base, out)
        finally:
            shutil.rmtree(top, ignore_errors=True)
    # one representative per (tree, kind) is enough for the report
    seen, uniq = set(), []
    for f in failures:
        k = (f["tree"], f.get("kind"), f.get("output"), f.get("kind") != "path-spelling-only" and json.dumps(f["configuration"], sort_keys=True))
        if k not in seen:
            seen.add(k)
            uniq.append(f)
    return Bounded("hidden-parameters", f"{len(TREES)} project trees (REUSE.toml hierarchy, dep5, stacked terminators and sidecars, 45-file "
                   "bulk) x {PYTHONHASHSEED values, serial / pools of 1..16 workers, reversed and shuffled directory listings, working "
                   "directory outside / at / inside the project, relative / absolute / non-normalised / discovered root}; every run "
                   "compared with the baseline run of its tree after sorting entries and dropping DocumentNamespace / Created",
                   runs, uniq[:14], "real `reuse lint --json`, `reuse spdx`, `reuse spdx --add-license-concluded` in child processes")


def nondeterminism_sources():
    """closed list of nondeterministic sources in src/reuse, by an exhaustive scan on every run"""
    import ast
    allowed = {
        ("report.py", "random.getrandbits"): "fake checksum when do_checksum is false (lint): reaches chk_sum / spdx_id only, never printed by lint",
        ("report.py", "uuid4"): "DocumentNamespace (exempt: random document identifier)",
        ("report.py", "datetime.datetime.now"): "Created (exempt: timestamp)",
        ("cli/annotate.py", "datetime.date.today"): "default year of annotate (not a lint / spdx result)",
    }
    names = {"getrandbits", "uuid4", "uuid1", "now", "today", "time", "random", "randint", "choice", "shuffle", "urandom", "getpid", "utcnow", "monotonic"}
    found, failures = [], []
    src = "/repo/src/reuse"
    for dirpath, _, files in os.walk(src):
        for fn in files:
            if not fn.endswith(".py"):
                continue
            p = os.path.join(dirpath, fn)
            rel = os.path.relpath(p, src)
            for node in ast.walk(ast.parse(open(p, encoding="utf-8").read())):
                if isinstance(node, ast.Call):
                    f = node.func
                    name = f.attr if isinstance(f, ast.Attribute) else (f.id if isinstance(f, ast.Name) else None)
                    if name in names:
                        text = ast.unparse(f)
                        found.append((rel, text))
                        if (rel, text) not in allowed:
                            failures.append({"file": rel, "line": node.lineno, "call": text, "replayed": True,
                                             "problem": "nondeterministic source outside the closed list (its flow into lint / spdx results is not accounted for)"})
    return Bounded("nondeterminism-sources", f"exhaustive scan of src/reuse for calls of {sorted(names)}: {sorted(set(found))}", len(found), failures,
                   "syntactic; the allowed sites feed only the fields the property exempts")


def run(ctx):
    # order matters: later modules replace the assumed contracts of earlier ones by the verified ones
    e = engine(ctx, modules=("contracts.report", "contracts.cli", "contracts.project", "contracts.toml", "contracts.config"))
    verify_all(ctx, e, FUNCTIONS)
    assumed_contracts(ctx, e, "C14")
    ctx.bounded.append(nondeterminism_sources())
    ctx.bounded.append(hidden_parameters(ctx.tier))
    ctx.assume("FileReport.generate / ProjectReport.generate: order-free results (sets and maps), fresh result objects and frames are "
               "obligations of C01 (same contracts), not repeated here")
    ctx.assume("multiprocessing.Pool.map returns one result per input (order irrelevant: results are folded into sets); OS scheduling "
               "of workers is not explored - the deductive substitute is the frame (non-interference) of the per-file functions")
    ctx.assume("the tree is not modified during a run; ReuseDep5.from_file is a function of the file's bytes")
    ctx.assume("pyvc models sets and dicts as mathematical values: any result that depended on their iteration order would need an "
               "order-sensitive operation, which the subset does not offer without a sort (sorted / min / max are modelled as functions of the set)")
