"""C06 - licence inventory: missing, unused, bad, deprecated and extension-less licences."""
from props.common import engine, verify_all, lemmas, assumed_contracts
from pyvc.driver import Bounded

LEVEL = "proof"
EXPLANATION = ("Set-algebra contracts on the real bodies (the '+' helpers, used/unused getters, the classification loops of "
               "FileReport.generate, the bad/deprecated loop of ProjectReport.generate, _identifier_of_license) plus lemmas "
               "stating the cross-consistency of missing/unused/bad from the statement; a finite exhaustive obligation over the "
               "bundled SPDX list for the extension rule.")

FUNCTIONS = [
    "reuse._util._strip_plus_from_identifier", "reuse._util._add_plus_to_identifier",
    "reuse.report.ProjectReport.used_licenses", "reuse.report.ProjectReport.unused_licenses",
    "reuse.report.FileReport.generate", "reuse.report.ProjectReport.generate",
    "reuse.project.Project._identifier_of_license",
]


def spdx_list_exhaustive():
    """Finite and exhaustive: every identifier of the bundled lists, used as a LICENSES/ file name without extension,
    must be rejected by the real _identifier_of_license (and is then reported as lacking an extension)."""
    from pathlib import Path
    from reuse.project import Project
    from reuse.exceptions import SpdxIdentifierNotFoundError
    from reuse._licenses import LICENSE_MAP, EXCEPTION_MAP
    import tempfile, os
    from pyvc.driver import VERIF
    os.makedirs(os.path.join(VERIF, ".scratch"), exist_ok=True)
    with tempfile.TemporaryDirectory(dir=os.path.join(VERIF, ".scratch")) as d:
        project = Project(d)
        failures = []
        ids = sorted({**LICENSE_MAP, **EXCEPTION_MAP})
        for ident in ids:
            try:
                got = project._identifier_of_license(Path("LICENSES") / ident)
                failures.append({"file": f"LICENSES/{ident}", "resolved_to": got, "expected": "reported as lacking a file extension",
                                 "replayed": True})
            except SpdxIdentifierNotFoundError:
                pass
            # with an extension the identifier is itself (case-sensitive)
            got = project._identifier_of_license(Path("LICENSES") / f"{ident}.txt")
            if got != ident:
                failures.append({"file": f"LICENSES/{ident}.txt", "resolved_to": got, "expected": ident, "replayed": True})
            lower = ident.lower()
            if lower != ident and lower not in project.license_map:
                try:
                    got = project._identifier_of_license(Path("LICENSES") / f"{lower}.txt")
                    failures.append({"file": f"LICENSES/{lower}.txt", "resolved_to": got, "expected": "not an identifier (case-sensitive)",
                                     "replayed": True})
                except SpdxIdentifierNotFoundError:
                    pass
    return Bounded("spdx-list-extensionless", f"exhaustive over the {len(ids)} identifiers of the bundled licence and exception lists",
                   len(ids) * 3, failures, "finite obligation evaluated on the real function (exhaustive)")


def run(ctx):
    e = engine(ctx, modules=("contracts.report", "contracts.cli", "contracts.project"))
    verify_all(ctx, e, FUNCTIONS)
    lemmas(ctx, e, "C06")
    assumed_contracts(ctx, e, "C06")
    ctx.bounded.append(spdx_list_exhaustive())
    ctx.assume("Project.license_map is LICENSE_MAP + EXCEPTION_MAP plus the registered LicenseRef- files (invariant established by "
               "_default_license_map/_find_licenses; their loop bodies are not under contract yet)")
    ctx.assume("Licensing.license_keys(expr) returns every licence and exception symbol of the expression (sampled, not proved)")
    ctx.weakest_pre.append("identifiers provided in LICENSES/ do not themselves end in '+' (no valid SPDX or LicenseRef- identifier does)")
