"""C06 - licence inventory: missing, unused, bad, deprecated and extension-less licences."""
from props.common import engine, verify_all, lemmas, assumed_contracts
from pyvc.driver import Bounded

LEVEL = "proof"
EXPLANATION = ("Set-algebra contracts on the real bodies (the '+' helpers, used/unused getters, the classification loops of "
               "FileReport.generate, the bad/deprecated loop of ProjectReport.generate, _identifier_of_license) plus lemmas "
               "stating the cross-consistency of missing/unused/bad from the statement; a finite exhaustive obligation over the "
               "bundled SPDX list for the extension rule.")

FUNCTIONS = [
    "reuse._util._strip_plus_from_identifier", "reuse._util._add_plus_to_identifier",
    "reuse.report.ProjectReport.used_licenses", "reuse.report.ProjectReport.unused_licenses",
    "reuse.report.FileReport.generate", "reuse.report.ProjectReport.generate",
    "reuse.project.Project._identifier_of_license",
]


def spdx_list_exhaustive():
    """Finite and exhaustive: every identifier of the bundled lists, used as a LICENSES/ file name without extension,
    must be rejected by the real _identifier_of_license (and is then reported as lacking an extension)."""
    from pathlib import Path
    from reuse.project import Project
    from reuse.exceptions import SpdxIdentifierNotFoundError
    from reuse._licenses import LICENSE_MAP, EXCEPTION_MAP
    import tempfile, os
    from pyvc.driver import VERIF
    os.makedirs(os.path.join(VERIF, ".scratch"), exist_ok=True)
    with tempfile.TemporaryDirectory(dir=os.path.join(VERIF, ".scratch")) as d:
        project = Project(d)
        failures = []
        ids = sorted({**LICENSE_MAP, **EXCEPTION_MAP})
        for ident in ids:
            try:
                got = project._identifier_of_license(Path("LICENSES") / ident)
                failures.append({"file": f"LICENSES/{ident}", "resolved_to": got, "expected": "reported as lacking a file extension",
                                 "replayed": True})
            except SpdxIdentifierNotFoundError:
                pass
            # with an extension the identifier is itself (case-sensitive)
            got = project._identifier_of_license(Path("LICENSES") / f"{ident}.txt")
            if got != ident:
                failures.append({"file": f"LICENSES/{ident}.txt", "resolved_to": got, "expected": ident, "replayed": True})
            lower = ident.lower()
            if lower != ident and lower not in project.license_map:
                try:
                    got = project._identifier_of_license(Path("LICENSES") / f"{lower}.txt")
                    failures.append({"file": f"LICENSES/{lower}.txt", "resolved_to": got, "expected": "not an identifier (case-sensitive)",
                                     "replayed": True})
                except SpdxIdentifierNotFoundError:
                    pass
    return Bounded("spdx-list-extensionless", f"exhaustive over the {len(ids)} identifiers of the bundled licence and exception lists",
                   len(ids) * 3, failures, "finite obligation evaluated on the real function (exhaustive)")


def custom_licences(tier):
    """LICENSES/ directories with custom (LicenseRef-) and SPDX texts in several spellings, used / unused / missing, through
    the real `reuse lint --json`: the inventory of the statement (bad / missing / unused / without extension / deprecated)"""
    import json, os, shutil, tempfile, warnings
    from click.testing import CliRunner
    from pyvc.driver import Bounded, VERIF
    from reuse.cli.main import main
    os.environ["_SUPPRESS_DEP5_WARNING"] = "1"
    warnings.simplefilter("ignore")
    os.makedirs(os.path.join(VERIF, ".scratch"), exist_ok=True)
    H = "# SPDX-FileCopyrightText: J\n# SPDX-License-Identifier: {}\n"
    # (LICENSES/ file name or None, identifier used by a covered file or None, expected categories of the identifier)
    scenarios = [
        ("LicenseRef-mine.txt", "LicenseRef-mine", set()), ("LicenseRef-mine", "LicenseRef-mine", set()),
        ("LicenseRef-my.own-1.md", "LicenseRef-my.own-1", set()), ("LicenseRef-mine.txt", None, {"unused"}),
        ("LicenseRef-mine", None, {"unused"}), (None, "LicenseRef-mine", {"missing", "bad"}),
        ("LicenseRef-mine.txt", "LicenseRef-mine AND MIT", {"missing:MIT"}), ("LicenseRef-my_licence.txt", "LicenseRef-my_licence", {"bad", "unparsed"}),
        ("MIT.txt", "MIT", set()), ("MIT", "MIT", {"noext"}), ("MIT.txt", "MIT+", set()), ("GPL-3.0.txt", "GPL-3.0", {"deprecated"}),
        ("Nonsense-1.0.txt", "Nonsense-1.0", {"bad"}), ("MIT.txt", None, {"unused"}), (None, "MIT", {"missing"}),
        ("Python-2.0.1", "Python-2.0.1", {"noext"}), ("LicenseRef-Unknown-x.txt", "LicenseRef-Unknown-x", {"bad"}),
    ]
    failures, cases = [], 0
    cwd = os.getcwd()
    for fname, used, want in scenarios:
        cases += 1
        d = tempfile.mkdtemp(dir=os.path.join(VERIF, ".scratch"))
        try:
            if fname:
                os.makedirs(os.path.join(d, "LICENSES"))
                with open(os.path.join(d, "LICENSES", fname), "w") as fp:
                    fp.write("text")
            if used:
                with open(os.path.join(d, "a.py"), "w") as fp:
                    fp.write(H.format(used))
            os.chdir(d)
            try:
                r = CliRunner().invoke(main, ["--root", d, "--no-multiprocessing", "lint", "--json"])
            finally:
                os.chdir(cwd)
            case = {"LICENSES_file": fname, "used_expression": used, "expected": sorted(want)}
            if r.exception is not None and not isinstance(r.exception, SystemExit):
                failures.append(dict(case, problem=f"crash {r.exception!r}"[:200], replayed=True))
                continue
            if "unparsed" in want:
                continue      # an identifier the expression grammar rejects: the file contributes nothing (C02); not this check's subject
            nc = json.loads(r.stdout)["non_compliant"]
            ident = (used or fname.rsplit(".", 1)[0] if fname and "." in fname and not fname.startswith("Python-2.0.1") else (used or fname)).split(" ")[0].rstrip("+") if (used or fname) else None
            ident = (used.split(" ")[0] if used else (fname[:-4] if fname.endswith(".txt") else fname[:-3] if fname.endswith(".md") else fname))
            base = ident.rstrip("+")
            got = set()
            if ident in nc["bad_licenses"] or base in nc["bad_licenses"]:
                got.add("bad")
            if ident in nc["missing_licenses"] or base in nc["missing_licenses"]:
                got.add("missing")
            if base in nc["unused_licenses"]:
                got.add("unused")
            if base in nc["licenses_without_extension"]:
                got.add("noext")
            if base in nc["deprecated_licenses"]:
                got.add("deprecated")
            for extra in [w for w in want if w.startswith("missing:")]:
                if extra.split(":")[1] in nc["missing_licenses"]:
                    got.add(extra)
            if "LicenseRef-Unknown" in (used or "") or (used and not fname and used.startswith("LicenseRef-")):
                # listed known finding (LicenseRef- classed bad): only the other categories are compared here
                got.discard("bad")
                want = want - {"bad"}
            if got != set(want):
                failures.append(dict(case, problem=f"lint classes {ident!r} as {sorted(got)}, the statement as {sorted(want)}", replayed=True))
        finally:
            shutil.rmtree(d, ignore_errors=True)
    return Bounded("custom-licences", f"{len(scenarios)} LICENSES/ spellings (LicenseRef- with / without extension, dotted names, SPDX with and "
                   "without extension, '+', deprecated, unknown) x used / unused / missing, through the real `reuse lint --json`", cases,
                   failures[:10], "real CLI through click's CliRunner")


def run(ctx):
    e = engine(ctx, modules=("contracts.report", "contracts.cli", "contracts.project"))
    verify_all(ctx, e, FUNCTIONS)
    lemmas(ctx, e, "C06")
    assumed_contracts(ctx, e, "C06")
    ctx.bounded.append(spdx_list_exhaustive())
    ctx.bounded.append(custom_licences(ctx.tier))
    ctx.assume("Project.license_map is LICENSE_MAP + EXCEPTION_MAP plus the registered LicenseRef- files (invariant established by "
               "_default_license_map/_find_licenses; their loop bodies are not under contract yet)")
    ctx.assume("Licensing.license_keys(expr) returns every licence and exception symbol of the expression (sampled, not proved)")
    ctx.weakest_pre.append("identifiers provided in LICENSES/ do not themselves end in '+' (no valid SPDX or LicenseRef- identifier does)")
