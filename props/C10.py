"""C10 - re-running annotate with the same arguments changes nothing."""
from props.common import engine, verify_all, lemmas, assumed_contracts
from props import annot

LEVEL = "proof"
EXPLANATION = ("Contracts on the real bodies of _create_new_header (the header text is a function of the three SETS, the template, the "
               "style and the flags: rendering goes through sorted(), so no iteration order is observable) and place_header (with an "
               "existing header no blank line is added). That each style finds the block its own writer produced (single-line before "
               "multi-line detection, Julia) and the fixpoint itself are exercised by running the real command repeatedly (bounded).")
FUNCTIONS = ["reuse.header._create_new_header", "reuse.header.place_header"]     # create_header is verified under C09
MODULES = ("contracts.report", "contracts.cli", "contracts.annotate", "contracts.copyright", "contracts.header")


def kf_literal_contributor(f):
    """known finding C10-template-literal-contributor"""
    return f.get("case") == "template with a literal contributor line"


def run(ctx):
    e = engine(ctx, modules=MODULES)
    from pyvc.driver import generic_replay
    for q in FUNCTIONS:
        ctx.verify(e, q, replay=generic_replay(q) if q == "reuse.header.place_header" else None)
    assumed_contracts(ctx, e, "C10")
    ctx.bounded.append(annot.idempotence(ctx.tier))
    ctx.assume("comment_at_first_character / contains_reuse_info on the tool's own output: bounded runs over every style")
    ctx.assume("--no-replace re-runs stack by design and are excluded; a pre-commented template only fits the style it was written in")
