"""C12 - ignore blocks hide exactly what they enclose."""
from pyvc.driver import Bounded, generic_replay
from pyvc.api import LEMMAS

LEVEL = "proof"
EXPLANATION = ("filter_ignore_block's real body is proved equal to the recursive specification F written from the "
               "statement (fixpoint form, one VC per code path x spec case, unbounded in the text); spec lemmas tie F to "
               "the statement's clauses; a bounded token enumeration runs the real extract_reuse_info end to end.")


def run(ctx):
    import contracts.extract as ce
    e = ctx.new_engine()
    ctx.verify(e, "reuse.extract.filter_ignore_block", replay=generic_replay("reuse.extract.filter_ignore_block"))
    for lem in [l for l in LEMMAS if "C12" in l.serves]:
        ctx.lemma(e, lem)
    ctx.bounded.append(token_enumeration(6 if ctx.tier == "thorough" else 5))
    ctx.trust("z3/cvc5 theory of strings (str.indexof, str.substr, str.contains)")
    ctx.assume("characters above U+2FFFF are not represented by the solvers' string theory")
    ctx.assume("extract_reuse_info applies filter_ignore_block before every tag search: decided for the real body by the "
               "C02 contract of extract_reuse_info (result is a function of F(text)); here additionally exercised by the bounded enumeration")
    ctx.weakest_pre.append("tags on a line that also holds a marker are glued to the remainder of the line (seam); the lemma "
                           "about kept tags is stated for marker-free lines")


def token_enumeration(maxlen):
    """T2: all token sequences up to maxlen; oracle = real extractor on the marker-free text that the
    statement says should remain."""
    import itertools
    from reuse.extract import extract_reuse_info, REUSE_IGNORE_START as S, REUSE_IGNORE_END as E
    lic = ["MIT", "0BSD", "ISC", "Zlib", "X11", "Unlicense", "curl"]
    kinds = ["S", "E", "L", "C", "T", "N"]
    failures, cases = [], 0

    def render(seq, keep=None):
        out = []
        for pos, k in enumerate(seq):
            if keep is not None and not keep[pos]:
                continue
            out.append({"S": S, "E": E, "L": f"SPDX-License-Identifier: {lic[pos]}\n",
                        "C": f"SPDX-FileCopyrightText: H{pos}\n", "T": "x ", "N": "\n"}[k])
        return "".join(out)

    def info(t):
        r = extract_reuse_info(t)
        return (sorted(map(str, r.spdx_expressions)), sorted(r.copyright_lines))

    for n in range(0, maxlen + 1):
        for seq in itertools.product(kinds, repeat=n):
            if "S" not in seq:
                continue
            cases += 1
            keep, inside = [], False
            for k in seq:
                if not inside and k == "S":
                    inside = True
                    keep.append(False)
                elif inside:
                    keep.append(False)
                    if k == "E":
                        inside = False
                else:
                    keep.append(k != "E" or True)
            # a stray E outside a block is ordinary text: keep it (it is not a tag)
            expected = info(render(seq, keep))
            got = info(render(seq))
            if got != expected and len(failures) < 5:
                failures.append({"tokens": "".join(seq), "text": render(seq), "expected": expected, "got": got})
    return Bounded("token-enumeration", f"all sequences over {{start,end,licence,copyright,text,newline}} up to length {maxlen}",
                   cases, failures, "real extract_reuse_info vs real extractor on the text the statement says remains")
