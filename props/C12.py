"""C12 - ignore blocks hide exactly what they enclose."""
from pyvc.driver import Bounded, generic_replay
from pyvc.api import LEMMAS

LEVEL = "proof"
EXPLANATION = ("filter_ignore_block's real body is proved equal to the recursive specification F written from the "
               "statement (fixpoint form, one VC per code path x spec case, unbounded in the text); spec lemmas tie F to "
               "the statement's clauses; a bounded token enumeration runs the real extract_reuse_info end to end.")


def run(ctx):
    import contracts.extract as ce
    e = ctx.new_engine()
    ctx.verify(e, "reuse.extract.filter_ignore_block", replay=generic_replay("reuse.extract.filter_ignore_block"))
    for lem in [l for l in LEMMAS if "C12" in l.serves]:
        ctx.lemma(e, lem)
    ctx.bounded.append(token_enumeration(6 if ctx.tier == "thorough" else 5))
    ctx.bounded.append(ignore_blocks_in_files(ctx.tier))
    ctx.trust("z3/cvc5 theory of strings (str.indexof, str.substr, str.contains)")
    ctx.assume("characters above U+2FFFF are not represented by the solvers' string theory")
    ctx.assume("extract_reuse_info applies filter_ignore_block before every tag search: decided for the real body by the "
               "C02 contract of extract_reuse_info (result is a function of F(text)); here additionally exercised by the bounded enumeration")
    ctx.weakest_pre.append("tags on a line that also holds a marker are glued to the remainder of the line (seam); the lemma "
                           "about kept tags is stated for marker-free lines")


def ignore_blocks_in_files(tier):
    """ignore blocks in real files read through reuse_info_of_file: long blocks (crossing 4 KiB .. 64 KiB offsets), with and
    without a snippet marker (which makes the reader scan the whole file)"""
    import os, shutil, tempfile
    from pyvc.driver import VERIF
    from reuse.extract import reuse_info_of_file, REUSE_IGNORE_START as S, REUSE_IGNORE_END as E
    os.makedirs(os.path.join(VERIF, ".scratch"), exist_ok=True)
    d = tempfile.mkdtemp(dir=os.path.join(VERIF, ".scratch"))
    failures, cases = [], 0
    try:
        for start in (0, 100, 4000, 4090, 8100):
            for length in (200, 3990, 4096, 4200, 9000, 70000) if tier == "thorough" else (200, 4200, 9000):
                for snippet in (False, True):
                    cases += 1
                    filler = "# filler line\n"
                    head = "# SPDX-FileCopyrightText: Visible\n" + filler * (start // len(filler))
                    hidden = "# SPDX-License-Identifier: 0BSD\n# SPDX-FileCopyrightText: Hidden\n"
                    block = f"# {S}\n" + filler * (length // len(filler)) + hidden + f"# {E}\n"
                    tail = "# SPDX-License-Identifier: MIT\n" + ("# SPDX-SnippetBegin\n# SPDX-SnippetEnd\n" if snippet else "")
                    text = head + block + tail
                    p = os.path.join(d, "f.py")
                    with open(p, "w") as fp:
                        fp.write(text)
                    info = reuse_info_of_file(p, p, d)
                    lic = {str(x) for x in info.spdx_expressions}
                    cop = set(info.copyright_lines)
                    if "0BSD" in lic or any("Hidden" in c for c in cop):
                        failures.append({"block_starts_at": len(head), "block_length": len(block), "snippet_marker": snippet, "replayed": True,
                                         "problem": f"tags inside the ignore block were read: licences {sorted(lic)}, notices {sorted(cop)}"})
                    elif snippet and lic != {"MIT"}:
                        failures.append({"block_starts_at": len(head), "block_length": len(block), "snippet_marker": snippet, "replayed": True,
                                         "problem": f"tag after the block not read in a file that is scanned completely: {sorted(lic)}"})
    finally:
        shutil.rmtree(d, ignore_errors=True)
    return Bounded("ignore-blocks-in-files", "ignore blocks starting at 5 offsets x 3 (quick) / 6 (thorough) lengths up to 70 000 bytes, with and without a "
                   "snippet marker, through the real reuse_info_of_file", cases, failures[:8], "real files")


def token_enumeration(maxlen):
    """T2: all token sequences up to maxlen; oracle = real extractor on the marker-free text that the
    statement says should remain."""
    import itertools
    from reuse.extract import extract_reuse_info, REUSE_IGNORE_START as S, REUSE_IGNORE_END as E
    lic = ["MIT", "0BSD", "ISC", "Zlib", "X11", "Unlicense", "curl"]
    kinds = ["S", "E", "L", "C", "T", "N"]
    failures, cases = [], 0

    def render(seq, keep=None, own_lines=False):
        out = []
        for pos, k in enumerate(seq):
            if keep is not None and not keep[pos]:
                continue
            # own_lines: every marker is a comment line of its own, spelled identically each time (the usual layout)
            out.append({"S": f"# {S}\n" if own_lines else S, "E": f"# {E}\n" if own_lines else E,
                        "L": f"SPDX-License-Identifier: {lic[pos]}\n",
                        "C": f"SPDX-FileCopyrightText: H{pos}\n", "T": "x " if not own_lines else "# same text\n", "N": "\n"}[k])
        return "".join(out)

    def info(t):
        r = extract_reuse_info(t)
        return (sorted(map(str, r.spdx_expressions)), sorted(r.copyright_lines))

    for n in range(0, maxlen + 1):
        for seq in itertools.product(kinds, repeat=n):
            if "S" not in seq:
                continue
            cases += 1
            keep, inside = [], False
            for k in seq:
                if not inside and k == "S":
                    inside = True
                    keep.append(False)
                elif inside:
                    keep.append(False)
                    if k == "E":
                        inside = False
                else:
                    keep.append(k != "E" or True)
            # a stray E outside a block is ordinary text: keep it (it is not a tag)
            for own_lines in (False, True):
                expected = info(render(seq, keep, own_lines))
                got = info(render(seq, None, own_lines))
                if got != expected and len(failures) < 5:
                    failures.append({"tokens": "".join(seq), "text": render(seq, None, own_lines), "expected": expected, "got": got, "replayed": True})
    return Bounded("token-enumeration", f"all sequences over {{start,end,licence,copyright,text,newline}} up to length {maxlen}, markers glued to their neighbours and as comment lines of their own",
                   cases, failures, "real extract_reuse_info vs real extractor on the text the statement says remains")
